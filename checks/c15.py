"""C15 - reported peak temperatures are the maxima over the whole sweep.

Design: MC_Track (fold of running maxima with strict update; duct slots
aligned outermost when the number of ducts changes between regions).
Code: after every Assembly.calculate the recorder logs the field maxima of
that plane (coolant, each duct, each pin temperature column) and the code's
_peak record; TLC folds the maxima itself and requires the code's value AND
height to equal the fold at every plane (first plane attaining the maximum),
the stored radial pin profile to be that of the peak pin at that height, and
- at the end - the summary tables to print those peaks and the final-plane
outlet / average temperatures.
"""
import copy
import random

from harness import common, scenarios, trackcheck
from harness.trackcheck import C15_CLAUSES, with_pins
from harness.scenarios import bundle_type, add_regions, make_core, flow_for

LEVEL = 'model_checking'


def peak_cases(rng, tier):
    out = []
    L = 0.6

    def one(label, t, pins=True, **kw):
        gm = kw.pop('gap_model', 'flow')
        c = make_core(rng, {'a1': t}, [(1, 1, 'a1')], [flow_for(t)],
                      gap_model=gm,
                      bypass_fraction=(0.05 if gm != 'none' else 0.0), **kw)
        out.append((label, with_pins(c) if pins else c))
    # peak at the top (monotone heating)
    one('peak-top', bundle_type(2), ncell=2, power_order=1)
    # peak in the middle: heated bottom, strongly cooled top (low power top
    # cell + cold gap) and a peak at the bottom plane of a cell
    one('peak-middle-dd', bundle_type(3, nd=2), ncell=3, power_order=2,
        zero_cells=(2,))
    one('peak-zero-power', bundle_type(2), power_scale=0.0)
    t = add_regions(bundle_type(3, nd=2), L,
                    lower=dict(model='simple', vf_coolant=0.3),
                    upper=dict(model='simple', vf_coolant=0.4))
    one('peak-dd-then-single', t, ncell=2, power_order=1)
    t = add_regions(bundle_type(2, nd=2), L,
                    upper=dict(model='6node', vf_coolant=0.4))
    one('peak-dd-then-6node', t, ncell=3, power_order=1, zero_cells=(2,))
    one('peak-lowfi', bundle_type(3, use_low_fidelity_model=True),
        pins=False)
    # a maximum approached slowly: the power of the top cell ramps down to
    # zero at the outlet, so the last planes differ by less than a
    # millikelvin (a peak is the maximum, however small the last increments)
    one('peak-slow-approach', bundle_type(2), ncell=2, power_order=1,
        gap_model='none', setup={'axial_mesh_size': 0.001})
    for p_ in out[-1][1]['power'].values():
        for comp in ('pins', 'duct', 'cool'):
            if p_.get(comp) is not None:
                p_[comp][-1] = [[abs(co[0]), -2.0 * abs(co[0])]
                                for co in p_[comp][-1]]
    # the same kinds of problem written in other unit systems: the tables
    # print temperatures and heights in the requested units
    from harness import unitsys
    by = dict(out)
    for k, u in (('peak-top', {'length': 'cm', 'temperature': 'c',
                               'mass_flow_rate': 'kg/min'}),
                 ('peak-middle-dd', {'length': 'in', 'temperature': 'f',
                                     'mass_flow_rate': 'lb/hr'}),
                 ('peak-dd-then-single', {'length': 'mm', 'temperature': 'k',
                                          'mass_flow_rate': 'kg/s'}),
                 ('peak-dd-then-6node', {'length': 'ft', 'temperature': 'c',
                                         'mass_flow_rate': 'lb/s'})):
        c = unitsys.case_in_units(by[k], u)
        c['_truth'] = by[k]
        out.append((f'{k}-{u["length"]}-{u["temperature"]}', c))
    # a hot centre among cooler neighbours, six-node regions above the
    # bundles: the hottest node of an outer assembly faces the centre
    from harness.scenarios import fitted_type, layout_positions
    T6 = add_regions(fitted_type(2, 0.060), L,
                     upper=dict(model='6node', vf_coolant=0.4),
                     rods=[0.0, 0.3])
    npin6 = 7
    out.append(('peak-core-6node-hot-centre', make_core(
        rng, {'T': T6}, [(r_, p_, 'T') for (r_, p_) in layout_positions(7)],
        [flow_for(T6, 0.08)] * 7, gap_model='flow', bypass_fraction=0.03,
        ncell=2, cell_bounds=[0.0, 0.3, 0.6], power_order=1,
        asm_power=[2.0e4 * npin6 * f for f in (4.0, .7, .8, .6, .9, .75, .65)])))
    cl = scenarios.core_lattice(rng, tier)
    out.append(('peak-core-dd-unrodded', with_pins(copy.deepcopy(cl[2][1]))))
    if tier == 'thorough':
        out.append(('peak-core-mixed', with_pins(copy.deepcopy(cl[0][1]))))
        for i in range(6):
            n = rng.choice([2, 3])
            nd = rng.choice([1, 2])
            t = bundle_type(n, nd=nd)
            if rng.random() < 0.5:
                t = add_regions(t, L, upper=dict(model=rng.choice(
                    ['simple', '6node']), vf_coolant=0.35))
            one(f'peak-rand{i}', t, ncell=rng.choice([2, 3, 4]),
                power_order=rng.choice([0, 1, 2]),
                zero_cells=rng.choice([(), (1,), (2,)]))
    return out


def run(tier, res, replay=None):
    rng = random.Random(common.seed() * 7919 + 15)
    r = common.tlc_model('MC_Track', 'MC_Track.cfg', timeout=900)
    common.require_ok(r, 'track design')
    res.add_tlc(r, 'design: running-maximum fold with duct slots aligned '
                   'outermost')
    results = trackcheck.run(peak_cases(rng, tier), res, C15_CLAUSES,
                             opts={'tables': True})
    for tr, v, l, cl in results:
        if tr['meta'].get('tables'):
            res.cov.setdefault('table_mismatches', []).append(
                {'case': tr['label'], 'what': tr['meta']['tables'][:4]})
    tr0 = results[0][0]
    res.sample({'case': tr0['label'], 'cfg': tr0['cfg'],
                'event': tr0['ev'][len(tr0['ev']) // 2]})
    res.sample({'cases': [t_[0]['label'] for t_ in results]})
    res.rule('one case = one recorded sweep (power shape x duct counts '
             'changing along the height x pin model); every Track event '
             'checks value and height of every running peak against TLC\'s '
             'own fold; Finish checks reported peaks and summary tables')
    res.trusted('harness/trackobs.py (field maxima, strict comparison flag)',
                'harness/tables.py (table parsing)', 'spec/AsmTrack.tla')
    res.assume('temperatures at 2^-18 K (monotone quantisation, strictness '
               'flag taken in double precision); heights exact in pm; '
               'tables compared at their 2-decimal print precision')


META = {
    'text': 'TLC model-checks the running-maximum fold (slots aligned '
            'outermost) and re-folds, plane by plane, the field maxima '
            'logged from real sweeps, requiring the code\'s peak value, '
            'height and pin profile to equal the fold at every plane, and '
            'the summary tables to print those peaks and the final fields.',
    'note': 'Field maxima are taken by the recorder from the region arrays '
            'after each step; TLC does the folding. Trusted: '
            'harness/trackobs.py, harness/tables.py.',
    'technique': 'TLA+ accumulator spec: TLC design model + TLC trace '
                 'validation of per-step peak records and summary tables',
    'design_ref': 'DESIGN.md section 4, C15',
}

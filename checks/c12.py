"""C12 - flow split conserves mass and equalises subchannel pressure
gradients; every accepted correlation combination can be evaluated.

Spec: Corr.tla states, per evaluation, the relations of the property (split
factors positive, flow-area-weighted mean one, equal pressure gradient over
the three subchannel types for the Cheng-Todreas family in every regime,
equal to the bundle friction gradient in laminar / turbulent flow, friction
factor positive and finite, mixing parameters non-negative and finite,
evaluable in every regime).  Binding: all 6 x 5 x 4 combinations the reader
accepts x {laminar, transition, turbulent} x {no grid, loss coefficient,
REH, CDD} are evaluated on constructed bundles exactly the way the Reactor
does it (template -> clone -> static parameters -> update), with pressure
gradients derived independently from the flow-split family's own
subchannel friction constants; TLC judges every observation (Trace_Corr).
"""
import itertools
import json
import math
import random
from concurrent.futures import ProcessPoolExecutor, ThreadPoolExecutor

import numpy as np

from harness import common, bundle_struct as bs

LEVEL = 'exploration'
ONE = 1 << 27
FF = ['NOV', 'REH', 'ENG', 'CTD', 'CTS', 'UCTD']
FS = ['NOV', 'SE2', 'MIT', 'CTD', 'UCTD']
MIX = ['MIT', 'CTD', 'UCTD', 'KC-BARE']
GRIDS = {
    'none': None,
    'loss_coeff': {'corr': None, 'axial_positions': [0.1, 0.2],
                   'loss_coeff': 1.1, 'solidity': None, 'corr_coeff': None},
    'REH': {'corr': 'REH', 'axial_positions': [0.1, 0.2], 'loss_coeff': None,
            'solidity': 0.3, 'corr_coeff': None},
    'CDD': {'corr': 'CDD', 'axial_positions': [0.1, 0.2], 'loss_coeff': None,
            'solidity': None, 'corr_coeff': None}}


def qq(x, scale=1.0):
    v = float(x) / scale
    if not math.isfinite(v):
        return ONE * 8
    v = max(-8.0, min(8.0, v))
    return int(round(v * ONE))


def relations(o, rr, ff, fs, T, has_grid, n_grid):
    """Fill the observation o with the relations of the property evaluated
    on the bundle rr at temperature T (n_grid: spacer grids inside the
    bundle, from the input)."""
    dassh = common.import_dassh()
    import dassh.correlations.friction_ctd as fctd
    import dassh.correlations.friction_uctd as fuctd
    import dassh.correlations.flowsplit_ctd as fsctd
    import dassh.correlations.flowsplit_uctd as fsuctd
    rr._init_static_correlated_params(T)
    rr._update_coolant_int_params(T)
    p = rr.coolant_int_params
    Re = float(p['Re'])
    o['Re'] = int(Re)
    # regime by the flow-split family's own bounds (CT family), else by
    # the CTD bounds (only used to label the observation)
    fam = fuctd if fs == 'UCTD' else fctd
    rb = fam.calculate_Re_bounds(rr)
    o['regime'] = ('laminar' if Re <= rb[0] else
                   'turbulent' if Re >= rb[1] else 'transition')
    x = np.asarray(p['fs'], dtype=float)
    n_sc = np.array([rr.subchannel.n_sc['coolant'][k]
                     for k in ('interior', 'edge', 'corner')], float)
    share = n_sc * rr.params['area'] / rr.bundle_params['area']
    o['x'] = [qq(v, 4.0) for v in x]
    o['sx'] = [qq(v) for v in share * x]
    f = np.asarray(p['ff'], dtype=float)
    o['fpos'] = int(bool(np.all(np.isfinite(f)) and np.all(f > 0)))
    ed, sw = p['eddy'], p['swirl']
    o['mixok'] = int(bool(np.isfinite(ed) and ed >= 0
                          and np.all(np.isfinite(sw)) and np.all(sw >= 0)))
    if fs in ('CTD', 'UCTD') and np.all(x > 0):
        cf = fam.calculate_subchannel_friction_factor_const(rr)
        lam = 7 if fs == 'UCTD' else None
        de = np.asarray(rr.params['de'])
        deb = rr.bundle_params['de']
        Re_i = Re * x * de / deb
        consts = fsctd.calc_constants(rr) if fs == 'CTD' else \
            fsuctd.calc_constants(rr)
        xL, xT = consts['fs']['laminar'], consts['fs']['turbulent']
        Re_iL = rb[0] * xL * de / deb
        Re_iT = rb[1] * xT * de / deb
        y = np.log10(Re_i / Re_iL) / np.log10(Re_iT / Re_iL)
        y = np.clip(y, 0.0, 1.0)
        m = fctd._m['turbulent']
        # the transition law of the family, written out here (Cheng-Todreas
        # 1986 eq. 9; Chen-Todreas 2018 eq. 4 adds the factor 1 - psi^7 on the
        # laminar part): f = fL (1 - psi)^(1/3) [1 - psi^lam] + fT psi^(1/3)
        fL_i = cf['laminar'] / Re_i
        fT_i = cf['turbulent'] / Re_i ** m
        ffi = fL_i * (1.0 - y) ** (1.0 / 3.0)
        if lam:
            ffi = ffi * (1.0 - y ** lam)
        ffi = ffi + fT_i * y ** (1.0 / 3.0)
        rho = rr.coolant.density
        vb = p['vel']
        G = ffi * rho * (x * vb) ** 2 / (2 * de)
        if has_grid:
            L = rr.z[1] - rr.z[0]
            # the number of grids inside the bundle as the input states it
            K = p['grid_loss_coeff'] * n_grid
            G = G + K * rho * (x * vb) ** 2 / 2 / L
        gs = 4 * float(np.max(np.abs(G)))
        o['G'] = [qq(v, gs) for v in G]
        if ff == fs:
            Gb = float(np.ravel(f)[0]) * rho * vb ** 2 / (2 * deb)
            o['Gb'] = qq(Gb, gs)
        o['hasG'] = 1
        # tolerance: exact closed forms in laminar / turbulent flow, the
        # iteration's own stopping rule (|dx| < 1e-5) otherwise
        exact = o['regime'] != 'transition' and not has_grid
        o['gtol'] = 64 if exact else int(1e-4 * ONE)


def evaluate_fresh(args):
    """The same relations on a bundle built from scratch at the requested
    flow (no clone of a template in between)."""
    return evaluate(args, fresh=True)


def evaluate(args, fresh=False):
    (n_ring, dims, re_target, ff, fs, mix, gname, label, nominal) = args
    if fresh:
        label = label + '/fresh'
    dassh = common.import_dassh()
    import dassh.correlations.friction_ctd as fctd
    import dassh.correlations.friction_uctd as fuctd
    import dassh.correlations.flowsplit_ctd as fsctd
    import dassh.correlations.flowsplit_uctd as fsuctd
    o = {'ff': ff, 'fs': fs, 'mix': mix, 'grid': gname, 'label': label,
         'x': [0, 0, 0], 'sx': [0, 0, 0], 'G': [0, 0, 0], 'Gb': 0,
         'hasG': 0, 'fpos': 0, 'mixok': 0, 'tol': 8, 'gtol': 8,
         'regime': nominal, 'outcome': 'ok', 'Re': 0}
    try:
        T = 700.0
        tmpl = bs.make_region(dassh, n_ring, dims, 1, flow=-1.0, ff=ff, fs=fs,
                              mix=mix, grid=GRIDS[gname])
        # a negative request -m.mmm means m.mmm x the laminar-transition
        # bound, -(100 + m.mmm) means m.mmm x the transition-turbulent bound
        # of the flow-split family (CTD bounds for the other splits)
        if re_target < 0:
            famb = fuctd if fs == 'UCTD' else fctd
            rbb = famb.calculate_Re_bounds(tmpl)
            o['bnd'] = 'L' if re_target > -100 else 'T'
            re_target = (rbb[0] * -re_target if re_target > -100
                         else rbb[1] * (-re_target - 100))
        # flow rate for the requested Reynolds number
        mu = tmpl.coolant.viscosity
        flow = re_target * mu * tmpl.bundle_params['area'] \
            / tmpl.bundle_params['de']
        if fresh:
            rr = bs.make_region(dassh, n_ring, dims, 1, flow=flow, ff=ff,
                                fs=fs, mix=mix, grid=GRIDS[gname])
        else:
            rr = tmpl.clone(new_flowrate=flow)
        rr.z = [0.0, 1.0]
        relations(o, rr, ff, fs, T, GRIDS[gname] is not None,
                  len(GRIDS[gname]['axial_positions'])
                  if GRIDS[gname] is not None else 0)
    except BaseException as e:
        import traceback
        o['outcome'] = type(e).__name__
        o['msg'] = str(e)[:120]
        o['where'] = [ln.strip() for ln in traceback.format_exc().splitlines()
                      if ln.strip().startswith('File')][-2:]
    return o


def evaluate_reactor(args):
    """The same relations on the pin bundle of an assembly built by the
    Reactor from an input file (reader, template, clone): the spacer grids
    that count are those the input places inside the bundle."""
    label, case = args
    from harness import cases
    dassh = common.import_dassh()
    t = case['types']['a1']
    ff, fs, mix = t['corr_friction'], t['corr_flowsplit'], t['corr_mixing']
    sg = t.get('SpacerGrid')
    gname = 'none' if not sg else (sg.get('corr') or 'loss_coeff')
    o = {'ff': ff, 'fs': fs, 'mix': mix, 'grid': gname, 'label': label,
         'x': [0, 0, 0], 'sx': [0, 0, 0], 'G': [0, 0, 0], 'Gb': 0,
         'hasG': 0, 'fpos': 0, 'mixok': 0, 'tol': 8, 'gtol': 8,
         'regime': 'reactor', 'outcome': 'ok', 'Re': 0}
    d = common.workdir('c12-' + label)
    try:
        inp, r = cases.build(dassh, case, str(d))
        rr = r.assemblies[0].rodded
        zlo, zhi = t.get('_rods', [0.0, case['L']])
        n_in = sum(1 for z in (sg or {}).get('axial_positions', [])
                   if zlo < z <= zhi)
        relations(o, rr, ff, fs, 700.0, n_in > 0, n_in)
    except BaseException as e:
        o['outcome'] = type(e).__name__
        o['msg'] = str(e)[:120]
    finally:
        common.cleanup(d)
    return o


def reactor_cases(rng):
    """Bundles with un-rodded regions above and below whose spacer-grid
    lists also name heights outside the bundle."""
    from harness.scenarios import bundle_type, add_regions, make_core, flow_for
    out = []
    for fam, grid, pos in (
            ('CTD', {'loss_coeff': 1.5}, [0.2, 0.3, 0.52]),
            ('UCTD', {'corr': 'REH', 'solidity': 0.25}, [0.05, 0.25, 0.4]),
            ('CTD', {'corr': 'CDD'}, [0.3, 0.58, 0.02]),
            ('CTD', {'loss_coeff': 0.9}, [0.2, 0.35])):
        t = add_regions(bundle_type(
            3, corr_friction=fam, corr_flowsplit=fam, corr_mixing=fam,
            SpacerGrid=dict(grid, axial_positions=pos)), 0.6,
            lower=dict(model='simple', vf_coolant=0.3),
            upper=dict(model='simple', vf_coolant=0.4), rods=[0.15, 0.45])
        c = make_core(rng, {'a1': t}, [(1, 1, 'a1')], [flow_for(t)],
                      gap_model='none')
        gl = grid.get('corr') or 'loss_coeff'
        out.append((f'reactor;ff:{fam},fs:{fam},mix:{fam};grid={gl};'
                    f'listed={len(pos)}', c))
    return out


def cases_for(rng, tier):
    out = []
    rings = [3] if tier == 'quick' else [2, 3, 4, 6]
    res = {'laminar': [60.0], 'transition': [3000.0],
           'turbulent': [60000.0]}
    if tier == 'thorough':
        res = {'laminar': [12.0, 300.0], 'transition': [1500.0, 6000.0],
               'turbulent': [40000.0, 900000.0]}
    for n in rings:
        dims = bs.random_dims(rng, n, 1)
        for ff, fs, mix in itertools.product(FF, FS, MIX):
            for reg, rl in res.items():
                if tier == 'quick' and reg == 'laminar' and \
                        (ff, fs, mix) == ('NOV', 'NOV', 'MIT'):
                    rl = rl + [12.0]      # keeps the listed finding visible
                for re_t in rl:
                    gl = list(GRIDS) if (tier == 'thorough' or
                                         (ff, mix) in (('CTD', 'CTD'),
                                                       ('NOV', 'MIT'),
                                                       ('UCTD', 'UCTD')))\
                        else ['none']
                    for g in gl:
                        out.append((n, dims, re_t, ff, fs, mix, g,
                                    f'N{n};ff:{ff},fs:{fs},mix:{mix};'
                                    f'Re~{int(re_t)};grid={g}', reg))
    # bare rods (no wire: diameter and lead both zero), the combinations
    # accepted for them, every regime
    for n in rings:
        P, D, Dw, Pw, ftf = bs.random_dims(rng, n, 1, bare=True)
        dims0 = (P, D, 0.0, 0.0, ftf)
        for ff, fs, mix in (('CTD', 'CTD', 'CTD'), ('UCTD', 'UCTD', 'UCTD'),
                            ('CTD', 'CTD', 'KC-BARE'), ('CTD', 'UCTD', 'UCTD'),
                            ('UCTD', 'CTD', 'CTD')):
            for reg, rl in res.items():
                out.append((n, dims0, rl[0], ff, fs, mix, 'none',
                            f'N{n};bare;ff:{ff},fs:{fs},mix:{mix};'
                            f'Re~{int(rl[0])};grid=none', reg))
    # the regime boundaries themselves (just below, on, just above)
    for n in rings:
        dims = bs.random_dims(rng, n, 1)
        combos = [('CTD', 'CTD', 'CTD'), ('UCTD', 'UCTD', 'UCTD'),
                  ('NOV', 'MIT', 'MIT')]
        mults = [0.999, 1.0, 1.002] if tier == 'quick' else \
            [0.99, 0.999, 1.0, 1.0005, 1.002, 1.005, 1.01, 1.03]
        for ff, fs, mix in combos:
            for m in mults:
                for code, nm in ((-m, 'L'), (-(100 + m), 'T')):
                    out.append((n, dims, code, ff, fs, mix, 'none',
                                f'N{n};ff:{ff},fs:{fs},mix:{mix};'
                                f'Re={m}x{nm}-bound;grid=none', 'boundary'))
    return out


def run(tier, res, replay=None):
    rng = random.Random(common.seed() * 7919 + 12)
    jobs = cases_for(rng, tier)
    with ProcessPoolExecutor(max_workers=common.NCPU) as ex:
        obs = list(ex.map(evaluate, jobs, chunksize=16))
        # the Cheng-Todreas families on bundles built from scratch
        fj = [j for j in jobs if j[3] == j[4] and j[3] in ('CTD', 'UCTD')]
        obs += list(ex.map(evaluate_fresh, fj, chunksize=16))
        obs += list(ex.map(evaluate_reactor, reactor_cases(rng)))
    traces = [{'cfg': {}, 'ev': [o]} for o in obs]
    n = common.NCPU
    shards = [list(range(i, len(traces), n)) for i in range(n)]

    def val(item):
        i, idx = item
        return common.tlc_traces('Trace_Corr', 'Trace_Corr.cfg',
                                 [traces[j] for j in idx], tag=f'corr{i}')
    with ThreadPoolExecutor(max_workers=n) as ex:
        outs = list(ex.map(val, enumerate(shards)))
    for idx, out in zip(shards, outs):
        res.add_tlc(dict(out, ok=True), 'TLC evaluation of correlation '
                                        'observations')
        res.add_traces(len(idx))
        for tid, (v, l, info) in out['verdicts'].items():
            o = obs[idx[tid - 1]]
            res.add_eval()
            res.distinct((o['ff'], o['fs'], o['mix'], o['regime'], o['grid'],
                          o['label'].split(';')[0]), o['outcome'] == 'ok')
            if v != 'accept':
                clauses = sorted(c.strip('" ') for c in
                                 info.strip('{}').split(',') if c.strip())
                for cl in clauses:
                    low = 'relt17=1;' if o.get('Re', 1000) < 17 else ''
                    if o.get('bnd'):
                        low += f'bnd={o["bnd"]};'
                    key = (f'{low}combo=ff:{o["ff"]},fs:{o["fs"]},mix:{o["mix"]};'
                           f'regime={o["regime"]};grid={o["grid"]};'
                           f'exc={o["outcome"]};clause={cl}')
                    res.violation(key, f'{o["label"]}: {clauses} '
                                  f'({o.get("msg", "")})', {'observation': o})
        common.cleanup(out['dir'])
    res.sample(obs[0])
    res.sample(next(o for o in obs if o['fs'] == 'CTD' and o['hasG']))
    res.rule('one case = (bundle, friction, flow split, mixing, Reynolds '
             'number, grid option); all 120 accepted combinations x 3 '
             'regimes are enumerated; distinct by (combination, regime, '
             'grid, bundle); non-trivial if it could be evaluated')
    res.cov['exhaustive'] = True
    res.trusted('checks/c12.py oracle for subchannel pressure gradients '
                '(uses the flow-split family\'s own friction constants)',
                'spec/Corr.tla')
    res.assume('gradients compared at 5e-7 relative in laminar / turbulent '
               'flow and 1e-4 in transition or with grids (the iteration '
               'stops at |dx| < 1e-5)')


META = {
    'text': 'Relational monitor with TLC as evaluator over the complete '
            'table of accepted correlation combinations x regimes x grid '
            'options, evaluated on cloned bundles as the Reactor does: mass '
            'conservation, pressure-gradient equality for the Cheng-Todreas '
            'family, bundle-friction consistency, positivity / finiteness, '
            'and evaluability of every accepted combination.',
    'note': 'No state space worth exploring (level exploration). The '
            'gradient oracle re-derives subchannel friction factors from the '
            'flow-split family\'s constants with the family\'s transition '
            'formula.',
    'technique': 'TLA+ relational spec evaluated by TLC on an exhaustive '
                 'table of correlation combinations (trace validation)',
    'design_ref': 'DESIGN.md section 4, C12',
}

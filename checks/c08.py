"""C08 - bundle topology and geometry are well-formed for every ring count.

1. TLC checks the theorems of spec/Bundle.tla (counts, symmetric adjacency,
   degrees, pin fractions, D6 equivariance, swirl ring, signatures) for every
   ring count of the tier (one TLC process per ring count, in parallel).
2. For every ring count and duct count the real PinLattice / Subchannel /
   RoddedRegion are constructed from /repo, projected to lattice coordinates
   by geometry, and every cell, pin, area identity and count is validated by
   TLC against the specification (spec/Trace_Bundle.tla).
"""
import random
from concurrent.futures import ThreadPoolExecutor

from harness import common
from harness.common import MachineryError
from harness import bundle_struct as bs

LEVEL = 'model_checking'


def _mc_one(args):
    n, maxnd = args
    d = common.workdir(f'mcb{n}')
    cfg = d / f'MC_Bundle_{n}.cfg'
    base = (common.SPEC / 'MC_Bundle.cfg').read_text()
    base = base.replace('MinN = 2', f'MinN = {n}')
    base = base.replace('MaxN = 7', f'MaxN = {n}')
    base = base.replace('MaxND = 3', f'MaxND = {maxnd}')
    # cfg must live next to the module
    local = common.SPEC / f'.MC_Bundle_{n}_{d.name}.cfg'
    local.write_text(base)
    try:
        return common.tlc_model('MC_Bundle', local.name, workers=1,
                                timeout=3000)
    finally:
        local.unlink(missing_ok=True)
        common.cleanup(d)


CORRS = [('CTD', 'CTD', 'CTD'), ('NOV', 'SE2', 'MIT'), ('UCTD', 'UCTD', 'UCTD'),
         ('NOV', 'MIT', 'MIT'), ('ENG', 'NOV', 'MIT'), ('REH', 'SE2', 'MIT')]


def build_trace(dassh, n, nd, dims, se2, wire, tid_cfg, order='asc',
                corr=None):
    try:
        ff, fs, mix = corr or CORRS[0]
        if dims[2] == 0.0:
            ff, fs, mix = 'CTD', 'CTD', 'CTD'    # bare rods: CT family only
        rr = bs.make_region(dassh, n, dims, nd, se2=se2, wire_dir=wire,
                            order=order, ff=ff, fs=fs, mix=mix)
        ev, proj = bs.bundle_events(rr)
        # the donor column the solver actually reads for this wire direction
        for o in ev:
            if o['e'] == 'Cell' and o['typ'] in (2, 3):
                used = proj.key_of(int(rr.subchannel.sc_adj[o['idx'],
                                                            rr._adj_sw]))
                if wire == 'clockwise':
                    o['donorCW'] = used
                else:
                    o['donorCCW'] = used
    except MachineryError:
        raise
    except BaseException as e:  # includes SystemExit from dassh error log
        ev = [{'e': 'BuildFailed', 'exc': type(e).__name__,
               'msg': str(e)[:200]}]
    return {'cfg': dict(tid_cfg, N=n, ND=nd), 'ev': ev}


def run(tier, res, replay=None):
    dassh = common.import_dassh()
    rng = random.Random(common.seed() * 7919 + 8)
    if tier == 'quick':
        ns = list(range(2, 10))
        mc_ns = list(range(2, 9))
        draws = 1
    else:
        ns = list(range(2, 21))
        mc_ns = list(range(2, 21))
        draws = 3
    # ---- 1. design-level theorems ------------------------------------
    with ThreadPoolExecutor(max_workers=min(common.NCPU, len(mc_ns))) as ex:
        for r in ex.map(_mc_one, [(n, 3) for n in mc_ns]):
            common.require_ok(r, 'Bundle theorems')
            res.add_tlc(r, 'design: theorems of Bundle.tla for one ring count')
    # ---- 2. code structure traces -------------------------------------
    traces = []
    for n in ns:
        for nd in (1, 2, 3):
            for k in range(draws):
                se2 = (k + n + nd) % 2 == 1
                wire = 'clockwise' if (n + k) % 2 == 0 else 'counterclockwise'
                dims = bs.random_dims(rng, n, nd, bare=(k == 2 and nd == 1))
                # the correlation options change nothing in the geometry
                corr = CORRS[(n + 2 * nd + k) % len(CORRS)]
                tr = build_trace(dassh, n, nd, dims, se2, wire,
                                 {'se2': int(se2), 'wire': wire,
                                  'corr': '/'.join(corr),
                                  'dims': [float(f'{x:.9g}') for x in dims[:4]]
                                  + [[float(f'{x:.9g}') for x in dims[4]]]},
                                 corr=corr)
                traces.append(tr)
                res.add_eval()
                res.distinct((n, nd, se2, wire, k))
                # the same bundle with the duct values listed in another
                # order (nesting is by magnitude, not by position)
                if nd >= 2 and (n % 3 == 2 or tier == 'thorough'):
                    for order in ('desc', 'outer-first'):
                        tr = build_trace(
                            dassh, n, nd, dims, se2, wire,
                            {'se2': int(se2), 'wire': wire, 'order': order,
                             'dims': [float(f'{x:.9g}') for x in dims[:4]]
                             + [[float(f'{x:.9g}') for x in dims[4]]]},
                            order=order)
                        traces.append(tr)
                        res.add_eval()
                        res.distinct((n, nd, se2, wire, k, order))
    # a second bundle with the same ring and duct counts but other
    # dimensions, built later in the same process: nothing of the first may
    # be carried over
    for n in ns[:4]:
        for nd in (1, 2, 3):
            dims = bs.random_dims(rng, n, nd)
            se2 = (n + nd) % 2 == 0
            wire = 'counterclockwise' if n % 2 == 0 else 'clockwise'
            tr = build_trace(dassh, n, nd, dims, se2, wire,
                             {'se2': int(se2), 'wire': wire, 'again': 1,
                              'dims': [float(f'{x:.9g}') for x in dims[:4]]
                              + [[float(f'{x:.9g}') for x in dims[4]]]})
            traces.append(tr)
            res.add_eval()
            res.distinct((n, nd, se2, wire, 'again'))
    # shard traces over TLC processes (one JVM per shard)
    shards = [traces[i::common.NCPU] for i in range(common.NCPU)]
    shards = [s for s in shards if s]

    def val(item):
        i, sh = item
        return common.tlc_traces('Trace_Bundle', 'Trace_Bundle.cfg', sh,
                                 tag=f'bundle{i}')
    with ThreadPoolExecutor(max_workers=len(shards)) as ex:
        outs = list(ex.map(val, enumerate(shards)))
    for sh, out in zip(shards, outs):
        res.add_tlc(dict(out, ok=True), 'trace validation of code structure')
        res.add_traces(len(sh))
        for tid, (v, l, info) in out['verdicts'].items():
            tr = sh[tid - 1]
            c = tr['cfg']
            if v != 'accept':
                bad = tr['ev'][l - 1] if 0 < l <= len(tr['ev']) else None
                key = f'N={c["N"]};ND={c["ND"]};clauses={info}'
                res.violation(key, f'bundle structure rejected at event {l}: '
                              f'{info}', {'cfg': c, 'event': bad})
        common.cleanup(out['dir'])
    t0 = traces[0]
    res.sample({'cfg': t0['cfg'], 'first_events': t0['ev'][:2],
                'n_events': len(t0['ev'])})
    res.sample({'cfg': traces[-1]['cfg'], 'n_events': len(traces[-1]['ev'])})
    res.rule('one case = (ring count, duct count, random admissible '
             'dimensions, se2 flag, wire direction); every ring count of the '
             'tier x 1..3 ducts is enumerated; distinct by that tuple; all '
             'are non-trivial (>= 30 cells)')
    res.cov['exhaustive'] = True
    res.cov['ring_counts'] = ns
    res.trusted('harness/bundle_struct.py (centroid -> lattice projection)',
                'spec/Bundle.tla as the definition of a well-formed bundle')
    res.assume('cells identified by published centroids within 1e-7 pitch',
               'area identities compared at 2^-30 of 4x the hexagon area '
               'with 4 quanta tolerance')

META = {
    'text': 'TLC proves the theorems of the geometric bundle definition '
            '(Bundle.tla) for every ring count of the tier and 1-3 ducts, '
            'and validates, cell by cell, the structure the real code builds '
            '(types, adjacency, pin incidence, heat fractions, ring order, '
            'swirl donors, centroids, area tiling, counts) against it for '
            'every ring count 2..9 (quick) / 2..20 (thorough).',
    'note': 'Trusted: the centroid-to-lattice projection in '
            'harness/bundle_struct.py and Bundle.tla as the definition of '
            'well-formedness. Areas compared at 4e-9 of the hexagon area.',
    'technique': 'TLA+ structure spec, TLC theorem check + TLC trace '
                 'validation of code-built structure',
    'design_ref': 'DESIGN.md section 4, C08',
}

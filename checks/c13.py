"""C13 - pin radial temperatures are ordered and obey radial heat conduction.

Spec: PinRadial.tla - ordering, zero-power identity, film / clad / gap drops
as heat flows implied by the REPORTED temperatures (with conductivities at
the reported temperatures), shell-by-shell fuel conduction solved from the
reported fuel-surface temperature, monotonicity in power, pin-adjacent
coolant as the weighted mean of Bundle.tla's incidence.
Binding: generated pin inputs (dimensions, gap 0 / > 0 with radiating gap,
metal-fuel compositions and porosities, user materials, 1-6 radial zones,
solid / annular pellets, powers 0..beyond the iteration limit, film
coefficients) through the real PinModel.calculate_temperatures, and pin
temperatures recorded in real sweeps; TLC judges every pin (Trace_Pin).
"""
import copy
import math
import random
from concurrent.futures import ProcessPoolExecutor, ThreadPoolExecutor

import numpy as np

from harness import common, cases, scenarios, drive, trackcheck
from harness import bundle_struct as bs
from harness.drive import qT

LEVEL = 'exploration'
ONE = 1 << 27
SB = 5.670374419e-8


def qh(x, scale):
    v = float(x) / scale
    if not math.isfinite(v):
        return ONE * 8
    return int(round(max(-8.0, min(8.0, v)) * ONE))


def kfun(mat):
    m = mat.clone()

    def k(T):
        m.update(float(T))
        return float(m.thermal_conductivity)
    return k


def pin_events(pm, q_lin, T_cool, htc, dz, t, sb=None, gapk=None,
               gapdr=None):
    """Pin events from the model and the temperatures it returned."""
    ev = []
    r_ci, r_cm, r_co = pm.clad['r']
    kc = pm.clad['k']
    rf = float(pm.fuel['r'][-1, 1])
    # thickness of the fuel-clad gap: as the input gives it (recorded
    # sweeps; either spelling of the keyword), else as the model holds it
    gdr = float(pm.gap['dr']) if gapdr is None else float(gapdr)
    if gapdr is not None:
        rf = float(r_ci) - gdr
    fuel_k = [kfun(m) for m in pm.fuel['mat']]
    sbc = sb if sb is not None else SB
    # conductivity of the fuel-clad gap: of the material the input names
    # (recorded sweeps), else the one the model holds
    gk = gapk if gapk is not None else pm.gap.get('k')
    for p in range(len(q_lin)):
        Tc, Tco, Tcm, Tci, Tfs, Tcl = [float(x) for x in t[p]]
        q = float(q_lin[p])
        scale = 4 * max(abs(q), 1.0)
        hv = np.ravel(np.asarray(htc, dtype=float))
        h = float(hv[p] if hv.size > 1 else hv[0])
        qfilm = 2 * math.pi * r_co * h * (Tco - Tc)
        kbar = 0.5 * (float(kc(Tci)) + float(kc(Tco)))
        qclad = 2 * math.pi * kbar * (Tci - Tco) / math.log(r_co / r_ci)
        qmid = 2 * math.pi * kbar * (Tcm - Tco) / math.log(r_co / r_cm)
        gap = int(gdr > 0)
        qgap = 0.0
        if gap:
            kg = 0.5 * (float(gk(Tfs)) + float(gk(Tci)))
            qgap = 2 * math.pi * rf * (
                kg * (Tfs - Tci) / gdr
                + getattr(pm, '_verif_emissivity', 0.9) * sbc
                * (Tfs ** 4 - Tci ** 4))
        # shell-by-shell conduction from the reported fuel surface
        qd = q / float(pm.fuel['area'])
        Tout = Tfs
        for i in reversed(range(pm.fuel['r'].shape[0])):
            dT = 0.25 * (pm.fuel['r'][i, 1] ** 2 - pm.fuel['r'][i, 0] ** 2) * qd
            kout = fuel_k[i](Tout)
            Tin = Tout + dT / kout
            for _ in range(200):
                Tn = Tout + dT / (0.5 * (fuel_k[i](Tin) + kout))
                if abs(Tn - Tin) < 1e-10:
                    Tin = Tn
                    break
                Tin = Tn
            Tout = Tin
        nsh = pm.fuel['r'].shape[0]
        # material correlations extrapolated beyond their validity can go
        # non-positive (powers far beyond melting): ordering is then moot
        kpos = int(float(kc(Tci)) > 0 and float(kc(Tco)) > 0
                   and all(fk(Tfs) > 0 and fk(Tcl) > 0 for fk in fuel_k)
                   and (not gap or (float(gk(Tfs)) > 0
                                    and float(gk(Tci)) > 0)))
        # tolerances from the model's own stopping rule (atol = 1e-3 K)
        dTc = max(abs(Tci - Tco), 1e-9)
        tolq_rel = 3e-3 / dTc + 1e-7
        if gap:
            # (relative to the drop the gap must carry - by conduction alone
            # it would be q' dr / (2 pi rf k) - not only to the reported one:
            # a gap that reports no drop at all is not excused)
            dexp = abs(q) * gdr / (2 * math.pi * rf * max(
                0.5 * (float(gk(Tfs)) + float(gk(Tci))), 1e-12))
            tolq_rel = max(tolq_rel, 3e-3 / max(abs(Tfs - Tci), 0.25 * dexp,
                                                1e-9) + 1e-7)
        ev.append({'e': 'Pin', 'p': p,
                   't': [qT(x) for x in (Tc, Tco, Tcm, Tci, Tfs, Tcl)],
                   'q': qh(q, scale), 'qfilm': qh(qfilm, scale),
                   'qclad': qh(qclad, scale), 'qmid': qh(qmid, scale),
                   'qgap': qh(qgap, scale), 'gap': gap, 'kpos': kpos,
                   'tcl': qT(Tout),
                   'tolT': 2 + int(2e-3 / drive.TQ),
                   'tolQ': 4 + int(min(1.0, tolq_rel) * abs(q) / scale * ONE),
                   'tolCL': 2 + int((nsh + 2) * 3e-3 / drive.TQ)})
    return ev


def gen_model(dassh, rng):
    d_pin = rng.uniform(0.004, 0.012)
    ct = d_pin * rng.uniform(0.05, 0.1)
    clad = dassh.Material(rng.choice(['ht9', 'ss316', 'd9']))
    gap_t = rng.choice([0.0, 0.0, rng.uniform(2e-5, 1.2e-4)])
    gap_mat = None
    if gap_t > 0:
        gap_mat = rng.choice([
            dassh.Material('sodium'),
            dassh.Material('he_like', coeff_dict={
                'thermal_conductivity': [0.05, 3.0e-4]})])
    nz = rng.choice([1, 2, 3, 4, 6])
    r0 = rng.choice([0.0, 0.0, 0.2])
    r_frac = [r0] + sorted(rng.uniform(r0 + 0.05, 0.95) for _ in range(nz - 1))
    htc_p = [0.023, 0.8, 0.4, 7.0]
    if rng.random() < 0.6:
        fp = {'r_frac': r_frac, 'gap_thickness': gap_t,
              'htc_params_clad': htc_p,
              'pu_frac': [rng.uniform(0, 0.3) for _ in range(nz)],
              'zr_frac': [rng.uniform(0.05, 0.2) for _ in range(nz)],
              'porosity': [rng.uniform(0, 0.3) for _ in range(nz)]}
        # the emissivity of the fuel surface: left to its default (0.9) or
        # given, down to a non-radiating gap (0.0)
        em = rng.choice([None, None, 0.9, 0.5, 0.1, 0.0])
        if em is not None:
            fp['emissivity'] = em
        pm = dassh.PinModel(d_pin, ct, clad, fuel_params=fp, gap_mat=gap_mat)
        pm._verif_emissivity = 0.9 if em is None else em
        kind = 'metal'
    else:
        mats = [dassh.Material(f'um{i}', coeff_dict={
            'thermal_conductivity': [rng.uniform(2.0, 25.0),
                                     rng.uniform(-2e-3, 4e-3)]})
            for i in range(nz)]
        pp = {'r_frac': r_frac, 'gap_thickness': gap_t,
              'htc_params_clad': htc_p, 'pin_material': mats}
        em = rng.choice([None, None, 0.9, 0.5, 0.1, 0.0])
        if em is not None:
            pp['emissivity'] = em
        pm = dassh.PinModel(d_pin, ct, clad, pin_params=pp, gap_mat=gap_mat)
        pm._verif_emissivity = 0.9 if em is None else em
        kind = 'user'
    return pm, {'d_pin': d_pin, 'clad_t': ct, 'gap': gap_t, 'zones': nz,
                'r0': r0, 'kind': kind}


def generated(args):
    seed, n = args
    dassh = common.import_dassh()
    rng = random.Random(seed)
    traces = []
    for it in range(n):
        try:
            pm, meta = gen_model(dassh, rng)
        except SystemExit:
            continue     # the generator produced an input the model rejects
        except BaseException as e:
            traces.append({'label': f'gen{seed}-{it}', 'cfg': {'mono': 0},
                           'ev': [{'e': 'Crash', 'exc': type(e).__name__,
                                   'msg': str(e)[:120]}]})
            continue
        Tc = rng.uniform(600, 900)
        # the coolant temperature as a float array, as an array of whole
        # kelvins of integer type, or as a plain integer for all pins: the
        # result is the same function of the number, whatever its type
        form = it % 3
        if form:
            Tc = float(int(Tc))
        tc_arg = (np.array([Tc]) if form == 0 else
                  np.array([int(Tc)]) if form == 1 else int(Tc))
        h = 10 ** rng.uniform(3.3, 5.3)
        dz = rng.choice([0.01, 0.002, 0.0007])
        qs = [0.0] + sorted(10 ** rng.uniform(2.0, 4.9) for _ in range(6))
        if it % 5 == 0:
            qs.append(5.0e5)     # far beyond melting: iteration limit
        ev = []
        for qv in qs:
            q_lin = np.array([qv])
            try:
                t = pm.calculate_temperatures(q_lin, tc_arg,
                                              np.array([h]), dz)
                if not np.all(np.isfinite(t)):
                    ev.append({'e': 'Stopped', 'why': 'nonfinite'})
                    continue
                if np.max(t) > 7000.0:
                    # beyond the 31-bit range of the temperature quanta
                    # (2^-18 K): not representable for TLC, not judged
                    ev.append({'e': 'Stopped', 'why': 'beyond range'})
                    continue
                ev += pin_events(pm, q_lin, [Tc], [h], dz, t)
            except SystemExit:
                ev.append({'e': 'Stopped', 'why': 'iteration limit'})
            except BaseException as e:
                ev.append({'e': 'Crash', 'exc': type(e).__name__,
                           'msg': str(e)[:120]})
        traces.append({'label': f'gen{seed}-{it}', 'cfg': {'mono': 1},
                       'ev': ev, 'meta': meta})
    return traces


def film_params(case, asm_name):
    """Constants (a, b, c, d) of Nu = a Re^b Pr^c + d for the clad-to-coolant
    film of an assembly type, from the input: the user's htc_params_clad or
    the documented default for wire-wrapped bundles."""
    t = case['types'][asm_name]
    sec = t.get('FuelModel') or t.get('PinModel') or {}
    hp = sec.get('htc_params_clad')
    if hp is not None:
        return [float(x) for x in hp]
    p2d = t['pin_pitch'] / t['pin_diameter']
    return [p2d ** 3.8 * 0.01 ** 0.86 / 3.0, 0.86, 0.86,
            4.0 + 0.16 * p2d ** 5]


class PinObs(drive.Observer):
    def __init__(self, reactor, stride=7, case=None):
        self.r = reactor
        self.case = case
        self.ev = []
        self.stride = stride
        self.proj = {}
        self.held = {}
        self.gapk = {}
        self.gapdr = {}
        if case is not None:
            for name, t in case['types'].items():
                sec = t.get('FuelModel') or t.get('PinModel')
                if sec:
                    self.gapdr[name] = float(
                        sec.get('gap_thickness',
                                sec.get('fcgap_thickness', 0.0)) or 0.0)
            import dassh as _d
            for name, t in case['types'].items():
                sec = t.get('FuelModel') or t.get('PinModel') or {}
                gm = sec.get('gap_material')
                if not gm:
                    continue
                spec = case.get('materials', {}).get(gm)
                try:
                    mat = (_d.Material(gm.lower(), coeff_dict={
                        k: (list(v) if isinstance(v, (list, tuple)) else [v])
                        for k, v in spec.items() if v is not None})
                        if spec is not None else _d.Material(gm.lower()))
                    self.gapk[name] = kfun(mat)
                except BaseException as e:
                    raise common.MachineryError(
                        f'gap material {gm} of the input cannot be built '
                        f'independently: {type(e).__name__} {e}')

    def on_asm(self, ai, asm, pre, dz, t_gap, h_gap, power, adiabatic):
        reg = pre.reg
        if not hasattr(reg, 'pin_model') or self.k % self.stride:
            return
        self.held[ai] = (reg, np.array(reg.pin_temps[:, 3:], copy=True))
        pw = (power or {}).get('pins')
        if pw is None:
            pw = np.zeros(reg.n_pin)
        pm = reg.pin_model
        t = reg.pin_temps[:, 3:]
        # film coefficient from the input's correlation constants and the
        # bundle-average Reynolds and Prandtl numbers, not from the solver's
        # own Nusselt routine
        a_, b_, c_, d_ = (film_params(self.case, asm.name) if self.case
                          else pm.htc_params)
        cool = reg.coolant
        de = reg.bundle_params['de']
        re_b = (reg.int_flow_rate * de
                / (reg.bundle_params['area'] * cool.viscosity))
        pr = cool.heat_capacity * cool.viscosity / cool.thermal_conductivity
        nu = a_ * re_b ** b_ * pr ** c_ + d_
        h = cool.thermal_conductivity * nu / de
        idx = list(range(0, reg.n_pin, max(1, reg.n_pin // 6)))
        sub = pin_events(pm, pw[idx], t[idx, 0], np.full(len(idx), h), dz,
                         t[idx], gapk=self.gapk.get(asm.name),
                         gapdr=self.gapdr.get(asm.name))
        self.ev += sub
        # coolant temperature of the pins from the geometric incidence
        if id(reg) not in self.proj:
            self.proj[id(reg)] = bs.Projection(reg)
        proj = self.proj[id(reg)]
        sc = reg.subchannel
        nc = sc.n_sc['coolant']['total']
        Tsc = reg.temp['coolant_int']
        for p in idx:
            pk = proj.pin_key[p]
            tot, w12 = 0.0, 0
            for i in range(nc):
                kk = proj.key[i]
                # pins touching the cell, by geometry
                if kk[0] == 1:
                    S = (kk[2], kk[3])
                    base = ((S[0] - 1) // 3, (S[1] - 1) // 3) if S[0] % 3 == 1 \
                        else ((S[0] - 2) // 3, (S[1] - 2) // 3)
                    pins = ([base, (base[0] + 1, base[1]), (base[0], base[1] + 1)]
                            if S[0] % 3 == 1 else
                            [(base[0] + 1, base[1]), (base[0], base[1] + 1),
                             (base[0] + 1, base[1] + 1)])
                    f = 2
                elif kk[0] == 2:
                    # edge: the two outer-ring pins whose sum is the key
                    pins = [q_ for q_ in proj.pin_key
                            if (kk[2] - q_[0], kk[3] - q_[1]) in proj.pin_index
                            and bs.hexdist((kk[2] - 2 * q_[0], kk[3] - 2 * q_[1])) == 1
                            and bs.hexdist(q_) == reg.n_ring - 1]
                    f = 3
                else:
                    pins = [(kk[2], kk[3])]
                    f = 2
                if tuple(pk) in [tuple(x) for x in pins]:
                    tot += f / 12.0 * Tsc[i]
                    w12 += f
            self.ev.append({'e': 'PinCool', 'p': p, 'tcode': qT(t[p, 0]),
                            'tgeom': qT(tot), 'wsum12': w12, 'tolT': 2})


    def end_step(self, k):
        for ai, (reg, t) in sorted(self.held.items()):
            now = np.asarray(reg.pin_temps[:, 3:], dtype=float)
            self.ev.append({'e': 'PinKeep', 'a': ai + 1, 'k': int(k),
                            'same': int(now.shape == t.shape and
                                        bool(np.array_equal(now, t)))})
        self.held = {}


def recorded(args):
    label, case = args
    dassh = common.import_dassh()
    d = common.workdir('c13-' + label)
    try:
        try:
            inp, r = cases.build(dassh, case, str(d))
            ob = PinObs(r, case=case)
            with drive.Recorder(dassh, r, [ob]) as rec:
                rec.sweep()
            ev = ob.ev
        except SystemExit:
            # the solver stopped with an error message (e.g. the gap
            # iteration of the pin model at its limit): what was observed up
            # to there is judged, the stop itself is not a violation of C13
            ev = (ob.ev if 'ob' in dir() else []) + [
                {'e': 'Stopped', 'why': 'solver stopped with an error message'}]
        except BaseException as e:
            ev = [{'e': 'Crash', 'exc': type(e).__name__, 'msg': str(e)[:160]}]
        return {'label': label, 'cfg': {'mono': 0}, 'ev': ev}
    finally:
        common.cleanup(d)


def run(tier, res, replay=None):
    rng = random.Random(common.seed() * 7919 + 13)
    sl = dict(scenarios.single_lattice(rng, tier))
    rec_cases = [(k, trackcheck.with_pins(copy.deepcopy(sl[k])))
                 for k in ('rod3-flowgap', 'rod2-adiabatic', 'multi-simple')]
    # metal fuel model in a sweep
    c = copy.deepcopy(sl['rod3-dd-flowbyp'])
    c['types']['a1']['FuelModel'] = {
        'gap_thickness': 0.0, 'clad_material': 'ht9',
        'r_frac': [0.0, 0.33333, 0.66667], 'pu_frac': [0.2, 0.2, 0.2],
        'zr_frac': [0.1, 0.1, 0.1], 'porosity': [0.25, 0.2, 0.15]}
    rec_cases.append(('rod3-dd-metalfuel', c))
    # annular pellets, and a gas gap between fuel and cladding
    c = trackcheck.with_pins(copy.deepcopy(sl['rod2-adiabatic']))
    c['types']['a1']['PinModel']['r_frac'] = [0.25, 0.5, 0.8]
    rec_cases.append(('rod2-annular-pins', c))
    c = copy.deepcopy(sl['rod3-flowgap'])
    c['materials']['gas_fixed'] = {'thermal_conductivity': 0.4}
    c['types']['a1']['FuelModel'] = {
        'gap_thickness': 0.00004, 'gap_material': 'gas_fixed',
        'clad_material': 'ht9',
        'r_frac': [0.15, 0.5, 0.8], 'pu_frac': [0.2, 0.2, 0.2],
        'zr_frac': [0.1, 0.1, 0.1], 'porosity': [0.25, 0.2, 0.15]}
    rec_cases.append(('rod3-annular-metalfuel-gasgap', c))
    # the older spelling of the gap keyword in a pin model with user
    # materials
    c = trackcheck.with_pins(copy.deepcopy(sl['rod2-adiabatic']))
    c['materials']['gas_fixed'] = {'thermal_conductivity': 0.4}
    c['types']['a1']['PinModel'].update(
        {'fcgap_thickness': 0.00004, 'gap_material': 'gas_fixed'})
    rec_cases.append(('rod2-pins-legacy-gap-keyword', c))
    # user film correlations whose Reynolds and Prandtl exponents differ
    c = trackcheck.with_pins(copy.deepcopy(sl['rod3-flowgap']))
    c['types']['a1']['PinModel']['htc_params_clad'] = [0.023, 0.8, 0.4, 7.0]
    rec_cases.append(('rod3-pins-film-db', c))
    c = copy.deepcopy(sl['rod2-adiabatic'])
    c['types']['a1']['FuelModel'] = {
        'gap_thickness': 0.0, 'clad_material': 'ht9',
        'htc_params_clad': [0.05, 0.7, 1.1, 3.0],
        'r_frac': [0.0, 0.33333, 0.66667], 'pu_frac': [0.2, 0.2, 0.2],
        'zr_frac': [0.1, 0.1, 0.1], 'porosity': [0.25, 0.2, 0.15]}
    rec_cases.append(('rod2-metalfuel-film-user', c))
    from harness.scenarios import fitted_type, layout_positions, make_core, \
        flow_for, bundle_type
    # steps on which the pins produce no heat (an unheated length above the
    # fuel; duct / coolant heating only): every pin temperature is the local
    # coolant temperature there
    c = make_core(rng, {'a1': bundle_type(2)}, [(1, 1, 'a1')],
                  [flow_for(bundle_type(2))], gap_model='flow',
                  bypass_fraction=0.05, ncell=3, power_order=1,
                  zero_cells=(2,))
    rec_cases.append(('rod2-pins-unheated-top', trackcheck.with_pins(c)))
    c = make_core(rng, {'a1': bundle_type(2)}, [(1, 1, 'a1')],
                  [flow_for(bundle_type(2))], gap_model='none', ncell=2,
                  comps=('duct', 'cool'))
    rec_cases.append(('rod2-pins-no-pin-power', trackcheck.with_pins(c)))
    # one type at several positions, powers and flows differing: every
    # assembly keeps its own pin temperatures
    T1 = fitted_type(2, 0.060)
    fb = flow_for(T1, 0.1)
    c = make_core(rng, {'T': T1},
                  [(r_, p_, 'T') for (r_, p_) in layout_positions(4)],
                  [fb, 0.6 * fb, 1.3 * fb, 0.8 * fb], gap_model='flow',
                  bypass_fraction=0.03)
    rec_cases.append(('core-one-type-pins', trackcheck.with_pins(c)))
    ngen = 8 if tier == 'quick' else 32
    per = 12 if tier == 'quick' else 40
    with ProcessPoolExecutor(max_workers=common.NCPU) as ex:
        traces = [t for ch in ex.map(generated,
                                     [(common.seed() * 1000 + i, per)
                                      for i in range(ngen)]) for t in ch]
        traces += list(ex.map(recorded, rec_cases))
    n = common.NCPU
    shards = [traces[i::n] for i in range(n)]

    def val(item):
        i, sh = item
        return common.tlc_traces('Trace_Pin', 'Trace_Pin.cfg',
                                 [{'cfg': t['cfg'], 'ev': t['ev']} for t in sh],
                                 tag=f'pin{i}')
    with ThreadPoolExecutor(max_workers=n) as ex:
        outs = list(ex.map(val, enumerate(shards)))
    npins = 0
    for sh, out in zip(shards, outs):
        res.add_tlc(dict(out, ok=True), 'TLC evaluation of pin observations')
        res.add_traces(len(sh))
        for tid, (v, l, info) in out['verdicts'].items():
            tr = sh[tid - 1]
            k = sum(1 for e in tr['ev'] if e['e'] in ('Pin', 'PinCool'))
            npins += k
            res.add_eval(max(k, 1))
            res.distinct(tr['label'], k > 1)
            if v != 'accept':
                clauses = sorted(c_.strip('" ') for c_ in
                                 info.strip('{}').split(',') if c_.strip())
                bad = tr['ev'][l - 1] if 0 < l <= len(tr['ev']) else None
                kind = 'generated' if tr['label'].startswith('gen') else 'sweep'
                for cl in clauses:
                    res.violation(f'{kind}={tr["label"]};clause={cl}',
                                  f'pin observation rejected at event {l}: '
                                  f'{clauses}', {'label': tr['label'],
                                                 'meta': tr.get('meta'),
                                                 'event': bad})
        common.cleanup(out['dir'])
    res.cov['pin_observations'] = npins
    res.sample({'label': traces[0]['label'], 'meta': traces[0].get('meta'),
                'event': traces[0]['ev'][1] if len(traces[0]['ev']) > 1
                else traces[0]['ev'][0]})
    res.rule('one evaluation = one pin at one power / axial step; cases = '
             'generated pin models (dimensions, gap, fuel kind, zones, '
             'annulus) x 7-8 powers from 0 to beyond the iteration limit, '
             'and pins recorded in real sweeps (every 7th plane, 6 pins); '
             'distinct by model / sweep label')
    res.trusted('checks/c13.py oracle (layer heat flows, shell solve)',
                'spec/PinRadial.tla')
    res.assume('tolerances derived from the model\'s own stopping rule '
               '(atol = 1e-3 K on every conductivity iteration); fuel shell '
               'relation = Eq. 3.4-11 of ANL-FRA-1996-3 as implemented '
               '(uniform heating, flux of a solid cylinder)')


META = {
    'text': 'Relational monitor with TLC as evaluator: every generated and '
            'recorded pin is checked for ordering, zero-power identity, '
            'film / clad / gap drops as heat flows implied by the reported '
            'temperatures, shell-by-shell fuel conduction, monotonicity in '
            'power, and pin-adjacent coolant as the geometric weighted mean.',
    'note': 'No state space worth exploring (level exploration). The '
            'oracle re-derives heat flows with the model\'s own material '
            'functions; tolerances follow from its iteration stopping rule.',
    'technique': 'TLA+ relational spec evaluated by TLC on generated and '
                 'recorded pin temperature profiles (trace validation)',
    'design_ref': 'DESIGN.md section 4, C13',
}

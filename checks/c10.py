"""C10 - duct-to-gap mesh mapping is positive, exact on constants,
conservative.

Design: MC_MeshMap proves on all mesh pairs of a small perimeter that the
overlap definition partitions every cell (rows of both maps sum to one,
perimeter-weighted integrals preserved, identity for equal meshes).
Code: (a) synthetic integer-tick meshes for every pair of ring counts
1..15 x 1..15 (unequal pitches / corner lengths, corner-only regions,
per-side mixed neighbours) are passed through the real
mesh_functions._map_asm2gap and every matrix entry is compared by TLC with
the overlap fraction (Trace_MeshMap); (b) the maps the Reactor installs on
every region of every assembly of mixed-mesh cores are checked for
positivity, unit row sums, conservation with the real cell lengths and
equality of the heat carried by an h-weighted flux on both meshes.
"""
import json
import random
from concurrent.futures import ProcessPoolExecutor, ThreadPoolExecutor

import numpy as np

from harness import common, cases, scenarios
from harness.common import MachineryError

LEVEL = 'model_checking'
Q = 1 << 20
S = 240          # ticks per hex side


def side_mesh(n, shrink=0):
    """(corner half-length, cells, pitch) of a side of S ticks with n edge
    cells; integer by construction."""
    if n == 0:
        return (S // 2, 0, 0)
    p = 2 * (S // (2 * (n + 1))) - 2 * shrink
    if p < 2:
        p = 2
    c = (S - n * p) // 2
    assert 2 * c + n * p == S and c > 0
    return (c, n, p)


def xb_from_sides(sides):
    x = [0]
    for s, (c, n, p) in enumerate(sides):
        for j in range(n + 1):
            x.append(s * S + c + j * p)
    x.append(6 * S)
    return x


def synth_trace(args):
    label, reg_side, gap_sides, scale_pow = args
    dassh = common.import_dassh()
    xc = xb_from_sides([reg_side] * 6)
    xf = xb_from_sides(gap_sides)
    sc = 2.0 ** -scale_pow
    xb_reg = np.array(xc, dtype=float) * sc
    core_row = np.zeros(len(xf) - 2 + 3)
    core_row[:len(xf) - 2] = np.array(xf[1:-1], dtype=float) * sc
    ev = []
    try:
        f2c, c2f = dassh.mesh_functions._map_asm2gap(xb_reg, core_row)
        nf, nc = len(xf) - 2, len(xc) - 2
        if f2c.shape[0] != nc or c2f.shape[1] != nc:
            ev.append({'e': 'BuildFailed', 'exc': 'shape'})
        else:
            for c in range(nc):
                ev.append({'e': 'F2C', 'c': c + 1, 'tol': 2,
                           'w': [int(round(float(v) * Q)) for v in f2c[c, :nf]]})
            for f in range(nf):
                ev.append({'e': 'C2F', 'f': f + 1, 'tol': 2,
                           'w': [int(round(float(v) * Q)) for v in c2f[f, :]]})
    except BaseException as e:
        ev.append({'e': 'BuildFailed', 'exc': type(e).__name__,
                   'msg': str(e)[:120]})
    return {'label': label, 'cfg': {'xc': xc, 'xf': xf, 'P': 6 * S},
            'ev': ev}


def near_trace(args):
    """Nearly commensurate meshes (real dimensions): a gap boundary lies a
    fraction of a micron to a few microns below or above a duct boundary.
    The maps must still partition every cell: unit row sums, conservation
    with the cell lengths of both meshes (computed here from the two lists
    of boundaries)."""
    label, H, n_reg, p_reg, n_gap, p_gap = args
    dassh = common.import_dassh()

    def bounds(n, p):
        x = [0.0]
        c = 0.5 * (H - n * p)
        for s_ in range(6):
            for j in range(n + 1):
                x.append(s_ * H + c + j * p)
        x.append(6 * H)
        return np.array(x)
    xc = bounds(n_reg, p_reg)
    xf = bounds(n_gap, p_gap)
    core_row = np.zeros(len(xf) - 2 + 3)
    core_row[:len(xf) - 2] = xf[1:-1]
    ev = []
    try:
        f2c, c2f = dassh.mesh_functions._map_asm2gap(xc, core_row)
        nf, nc = len(xf) - 2, len(xc) - 2
        lenc = np.diff(xc)
        lenc = np.append(lenc[1:-1], lenc[0] + lenc[-1])
        lenf = np.diff(xf)
        lenf = np.append(lenf[1:-1], lenf[0] + lenf[-1])
        f2c = f2c[:, :nf]
        c2f = c2f[:nf, :]
        ev.append({'e': 'Props', 'tol': 4,
                   'consF2C': [int(round(v * Q)) for v in (lenc @ f2c) / lenf],
                   'consC2F': [int(round(v * Q)) for v in (lenf @ c2f) / lenc],
                   'rowF2C': [int(round(v * Q)) for v in np.sum(f2c, axis=1)],
                   'rowC2F': [int(round(v * Q)) for v in np.sum(c2f, axis=1)],
                   'nonneg': int(bool(np.all(f2c >= 0) and np.all(c2f >= 0))),
                   'same': 0, 'identity': 0, 'flux': 1, 'heat': [0.0, 0.0]})
    except BaseException as e:
        ev.append({'e': 'BuildFailed', 'exc': type(e).__name__,
                   'msg': str(e)[:120]})
    return {'label': label, 'cfg': {'xc': [0, 1, 2], 'xf': [0, 1, 2], 'P': 2},
            'ev': ev}


def near_cases(rng, tier):
    out = []
    H = 0.12 / 3 ** 0.5      # hexagon side of a 12 cm duct
    k = 0
    for n_reg in (1, 2, 3, 4, 6):
        for mult in (1, 2, 3):
            n_gap = mult * n_reg
            p_reg = H / (n_reg + 1.3)
            for delta in (2e-8, 3e-7, 1e-6, 2.5e-6, -3e-7, -1e-6):
                # equal cell counts with boundaries that agree to a fraction
                # of a micron: the routine takes such meshes for the same
                # mesh (identity, conservative to 1e-5) - its own equality
                # tolerance, not judged here
                if mult == 1 and abs(delta) < 2e-6:
                    continue
                p_gap = p_reg / mult - delta / mult
                out.append((f'near-n{n_reg}-x{mult}-d{k}', H, n_reg, p_reg,
                            n_gap, p_gap))
                k += 1
    return out


def synth_cases(rng, tier):
    out = []
    maxn = 15
    step = 1 if tier == 'thorough' else 2
    for nr in range(0, maxn, 1):
        for ng in range(0, maxn, step):
            # the gap mesh of a side is the finer of the two meshes facing it
            if ng < nr:
                continue
            reg = side_mesh(nr)
            variants = [[side_mesh(ng)] * 6]
            # per-side mixed neighbours: some sides keep the region's own
            # mesh, others see the finer neighbour (also with a shrunk pitch)
            mixed = [side_mesh(ng, 1 if s % 2 else 0) if s in (0, 1, 4)
                     else reg for s in range(6)]
            variants.append(mixed)
            variants.append([reg if s in (0, 3) else side_mesh(ng)
                             for s in range(6)])
            for vi, gs in enumerate(variants):
                out.append((f'nr{nr}-ng{ng}-v{vi}', reg, gs,
                            rng.choice([10, 13, 16])))
    return out


def recorded_trace(args):
    label, case = args
    dassh = common.import_dassh()
    d = common.workdir('c10-' + label)
    out = []
    try:
        try:
            inp, r = cases.build(dassh, case, str(d))
        except BaseException as e:
            return [{'label': label, 'cfg': {'xc': [0, 1, 2], 'xf': [0, 1, 2],
                                             'P': 2},
                     'ev': [{'e': 'BuildFailed', 'exc': type(e).__name__}]}]
        core = r.core
        rng = random.Random(1)
        for a, asm in enumerate(r.assemblies):
            xbc = core._asm_sc_xbnds[a]
            nf = int(np.count_nonzero(core._asm_sc_adj[a]))
            lenf = np.array(core.gap_params['asm wp'][a, :nf], dtype=float)
            for ri, reg in enumerate(asm.region):
                xr = reg.calculate_xbnds()
                lenc = np.diff(xr)
                lenc = np.append(lenc[1:-1], lenc[0] + lenc[-1])
                f2c = reg._map['gap2duct'][:, :nf]
                c2f = reg._map['duct2gap'][:nf, :]
                same = int(len(lenc) == nf and np.allclose(
                    np.cumsum(lenc), np.cumsum(lenf), rtol=0, atol=1e-12))
                # gap cells between two sides that no pin bundle defines
                # reach to the middle of both sides: their length along the
                # duct is one hexagon side of the duct as given in the input
                want = (case.get('_hexside_cells') or {}).get(a)
                if want is not None:
                    tname = case['assign'][a][0]
                    side = max(case['types'][tname]['duct_ftf']) / 3 ** 0.5
                    got = int(np.sum(np.abs(lenf - side) <= 1e-12))
                    if got < want:
                        same = 1       # the meshes must coincide there ...
                        ident = 0      # ... and do not
                        out.append({'label': f'{label}/a{a}/r{ri}/cells',
                                    'cfg': {'xc': [0, 1, 2], 'xf': [0, 1, 2],
                                            'P': 2},
                                    'ev': [{'e': 'Cells', 'want': want,
                                            'got': got}]})
                ident = int(f2c.shape == (nf, nf) and
                            np.array_equal(f2c, np.identity(nf)))
                consF = (lenc @ f2c) / lenf          # unit vector f -> 1
                consC = (lenf @ c2f) / lenc
                # an h-weighted flux carries the same heat on both meshes
                h = np.array([rng.uniform(0.5, 2.0) for _ in range(nf)])
                T = np.array([rng.uniform(600, 800) for _ in range(nf)])
                Ts = np.array([rng.uniform(600, 800) for _ in range(len(lenc))])
                hd = f2c @ h
                Td = (f2c @ (h * T)) / hd
                heat_duct = float(np.sum(lenc * hd * (Ts - Td)))
                heat_gap = float(np.sum(lenf * h * (c2f @ Ts - T)))
                flux = int(abs(heat_duct - heat_gap)
                           <= 1e-9 * max(abs(heat_duct), abs(heat_gap), 1.0))
                out.append({'label': f'{label}/a{a}/r{ri}',
                            'cfg': {'xc': [0, 1, 2], 'xf': [0, 1, 2], 'P': 2},
                            'ev': [{'e': 'Props', 'tol': 4,
                                    'consF2C': [int(round(v * Q)) for v in consF],
                                    'consC2F': [int(round(v * Q)) for v in consC],
                                    'rowF2C': [int(round(v * Q)) for v in
                                               np.sum(f2c, axis=1)],
                                    'rowC2F': [int(round(v * Q)) for v in
                                               np.sum(c2f, axis=1)],
                                    'nonneg': int(bool(np.all(f2c >= 0) and
                                                       np.all(c2f >= 0))),
                                    'same': same, 'identity': ident,
                                    'flux': flux,
                                    'heat': [heat_duct, heat_gap]}]})
        return out
    finally:
        common.cleanup(d)


def run(tier, res, replay=None):
    rng = random.Random(common.seed() * 7919 + 10)
    r = common.tlc_model('MC_MeshMap', 'MC_MeshMap.cfg', timeout=900)
    common.require_ok(r, 'mesh map theorems')
    res.add_tlc(r, 'design: overlap maps partition cells for all mesh pairs '
                   'of a small perimeter')
    syn = synth_cases(rng, tier)
    cl = scenarios.core_lattice(rng, tier)
    sl = dict(scenarios.single_lattice(rng, tier))
    rec = cl + [(k, sl[k]) for k in ('multi-simple', 'multi-6node',
                                     'rod3-dd-flowbyp')]
    # the same cores with the duct values listed in other orders
    import copy
    for lab, c in cl:
        for listing in ('desc', 'outer-first'):
            cc = copy.deepcopy(c)
            cc['ftf_listing'] = listing
            rec.append((f'{lab}-{listing}', cc))
    # assemblies without a pin bundle: sides that no bundle defines hold
    # corner cells only, meeting in the middle of the side
    from harness.scenarios import fitted_type, make_core, flow_for, \
        layout_positions, add_regions
    p7 = layout_positions(7)
    UL = fitted_type(3, 0.060, use_low_fidelity_model=True,
                     low_fidelity_model='simple')
    c = make_core(rng, {'U': UL}, [(r_, p_, 'U') for (r_, p_) in p7],
                  [flow_for(UL, 0.1)] * 7, gap_model='flow',
                  bypass_fraction=0.05)
    c['_hexside_cells'] = {a: 6 for a in range(7)}
    rec.append(('7-all-lowfi', c))
    c1 = make_core(rng, {'U': copy.deepcopy(UL)}, [(1, 1, 'U')],
                   [flow_for(UL, 0.1)], gap_model='flow',
                   bypass_fraction=0.05)
    c1['_hexside_cells'] = {0: 6}
    rec.append(('1-lowfi', c1))
    F3 = add_regions(fitted_type(3, 0.060), 0.6,
                     lower=dict(model='simple', vf_coolant=0.3))
    U6 = fitted_type(3, 0.060, use_low_fidelity_model=True,
                     low_fidelity_model='6node')
    names = ['F', 'R', 'R', 'R', 'R', 'R', 'R']
    types = {'F': F3, 'R': U6}
    c = make_core(rng, types, [(r_, p_, names[i]) for i, (r_, p_) in
                               enumerate(p7)],
                  [flow_for(types[n], 0.1) for n in names], gap_model='flow',
                  bypass_fraction=0.05)
    # a reflector of the ring: one side follows the bundle at the centre,
    # five consecutive sides are defined by no bundle -> four cells between
    c['_hexside_cells'] = {a: 4 for a in range(1, 7)}
    rec.append(('7-bundle-among-lowfi', c))
    rec.append(('7-tight-coarse-among-loose-fine',
                scenarios.tight_among_loose(rng)))
    with ProcessPoolExecutor(max_workers=common.NCPU) as ex:
        traces = list(ex.map(synth_trace, syn, chunksize=8))
        traces += list(ex.map(near_trace, near_cases(rng, tier),
                              chunksize=8))
        for t in ex.map(recorded_trace, rec):
            traces += t
    n = common.NCPU
    shards = [traces[i::n] for i in range(n)]

    def val(item):
        i, sh = item
        return common.tlc_traces('Trace_MeshMap', 'Trace_MeshMap.cfg',
                                 [{'cfg': t['cfg'], 'ev': t['ev']} for t in sh],
                                 tag=f'mm{i}', timeout=3000)
    with ThreadPoolExecutor(max_workers=n) as ex:
        outs = list(ex.map(val, enumerate(shards)))
    seen = {}
    for sh, out in zip(shards, outs):
        res.add_tlc(dict(out, ok=True), 'trace validation of mesh maps')
        res.add_traces(len(sh))
        for tid, (v, l, info) in out['verdicts'].items():
            tr = sh[tid - 1]
            res.add_eval()
            res.distinct(tr['label'], len(tr['ev']) > 0)
            if v != 'accept':
                clauses = sorted(c.strip('" ') for c in
                                 info.strip('{}').split(',') if c.strip())
                bad = tr['ev'][l - 1] if 0 < l <= len(tr['ev']) else None
                kind = 'synthetic' if tr['label'].startswith('nr') else 'reactor'
                for cl_ in clauses:
                    topc = (bad is not None and bad.get('e') == 'C2F'
                            and bad.get('f') == len(tr['cfg']['xf']) - 2)
                    key = (f'{kind}={tr["label"]};clause={cl_}'
                           + (';cell=topcorner' if topc else ''))
                    res.violation(key, f'mesh map rejected at event {l}: '
                                  f'{clauses}', {'label': tr['label'],
                                                 'cfg': tr['cfg'],
                                                 'event': bad})
        common.cleanup(out['dir'])
    res.sample({'label': traces[3]['label'], 'cfg': traces[3]['cfg'],
                'row': traces[3]['ev'][0]})
    res.sample({'label': traces[-1]['label'], 'ev': traces[-1]['ev'][0]})
    res.rule('one case = one (region mesh, gap mesh) pair: synthetic pairs '
             'enumerate ring counts 1..15 x 1..15 (gap at least as fine) x 3 '
             'per-side mixes; recorded pairs are every region of every '
             'assembly of the core lattice; each matrix row is a checked '
             'obligation; distinct by label')
    res.cov['exhaustive'] = (tier == 'thorough')
    res.trusted('checks/c10.py mesh generators', 'spec/MeshMap.tla')
    res.assume('synthetic boundaries are integer ticks (240 per hex side) '
               'scaled by a power of two; entries compared at 2^-20')


META = {
    'text': 'TLC proves the partition theorems of the overlap definition on '
            'all mesh pairs of a small perimeter and compares, entry by '
            'entry, the matrices the real _map_asm2gap returns for ring '
            'counts 1..15 x 1..15 (mixed per-side neighbours, unequal '
            'pitches, corner-only regions) with the overlap fractions; maps '
            'installed by the Reactor are checked for positivity, unit rows, '
            'conservation with real lengths and equal heat on both meshes.',
    'note': 'Synthetic meshes are integer-tick idealisations of the real '
            'boundary vectors; the recorded part covers real geometry.',
    'technique': 'TLA+ overlap-map spec: TLC theorem check + TLC trace '
                 'validation of code-built transfer matrices',
    'design_ref': 'DESIGN.md section 4, C10',
}

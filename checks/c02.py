"""C02 - inter-assembly heat exchange is conservative; core balance closes.

Design: MC_March (gap advanced after all assemblies with fresh duct
temperatures => credit = duct loss and whole-core balance); the free
schedule variant must fail.  Code: recorded sweeps of cores with unequal
duct meshes, empty positions, periphery, double ducts and unrodded
assemblies; every Gap event (credit per assembly on the gap mesh vs. heat
leaving the outer duct on the duct mesh; gap enthalpy rise vs. sum of
credits) and the running whole-core balance are validated by TLC; gap
operator probes show that conduction between gap cells only moves heat.
"""
import random

from harness import common, scenarios, marchcheck, opprobe
from harness.marchcheck import C02_CLAUSES

LEVEL = 'model_checking'


def run(tier, res, replay=None):
    rng = random.Random(common.seed() * 7919 + 2)
    r = common.tlc_model('MC_March', 'MC_March.cfg', timeout=1800)
    common.require_ok(r, 'march design model')
    res.add_tlc(r, 'design: schedule + contracts => CoreBal / GapCredit')
    r = common.tlc_model('MC_March', 'Neg_March_GapAnyTime.cfg', timeout=600)
    common.require_violation(r)
    res.add_tlc(r, 'negative: gap advanced before all assemblies must '
                   'break credit = duct loss')
    r = common.tlc_model('MC_March', 'MC_March_SixNode.cfg', timeout=1800)
    common.require_ok(r, 'six-node lag variant')
    res.add_tlc(r, 'design: six-node regions close with one-level lag')
    sl = dict(scenarios.single_lattice(rng, tier))
    lab = scenarios.core_lattice(rng, tier)
    for k in ('rod2-adiabatic', 'rod3-flowgap', 'rod3-dd-flowbyp',
              'rod2-dd-stagnant', 'multi-simple', 'multi-6node',
              'lowfi-simple', 'lowfi-6node', 'rod2-3duct',
              'rod2-convapprox', 'opt-3duct-convapprox',
              'opt-dd-regions-adiabatic-gravity', 'opt-uctd-grid-regions',
              'opt-outlet-temp-bc', 'multi-convfactor', 'opt-five-regions',
              'opt-only-upper-region', 'opt-only-lower-region-dd',
              'opt-bare-kc', 'opt-dummy-pins', 'opt-htc-custom-dd'):
        lab.append((k, sl[k]))
    # the coarser assembly with the shorter corner cells (a duct cell that
    # lies inside one gap cell)
    lab.append(('7-tight-coarse-among-loose-fine',
                scenarios.tight_among_loose(rng)))
    results = marchcheck.run_cases(lab, res, C02_CLAUSES)
    opprobe.run_probes(res, tier, rng, focus='C02',
                       cases_override=[(l, c) for l, c in lab
                                       if c['gap_model'] == 'flow'][:
                                       (4 if tier == 'quick' else 12)])
    tr0 = results[0][0]
    res.sample({'case': tr0['label'], 'cfg': tr0['cfg'],
                'gap_event': next((e for e in tr0['ev'] if e['e'] == 'Gap'),
                                  None)})
    res.sample({'cases': [t[0]['label'] for t in results]})
    res.rule('one case = one recorded sweep of a core layout x type mix; '
             'every Gap event and every plane-boundary balance is a checked '
             'obligation; non-trivial if heat moves; distinct by label')
    res.trusted('harness/ledger.py', 'spec/March.tla')
    res.assume('flowing gap model for the conservation statements; '
               'six-node regions with the one-level lag; constant-property '
               'coolant; 2^-30 of 4x total power, 6 quanta')


META = {
    'text': 'TLC model-checks that the specified step order makes credit = '
            'duct loss and closes the whole-core balance (free-schedule '
            'variant must fail), and validates every Gap event and every '
            'plane-boundary balance of recorded real sweeps of mixed-mesh '
            'cores (empties, periphery, double duct, unrodded, six-node).',
    'note': 'Flowing gap model, constant properties; no-flow / '
            'duct-average models are out of the statement (C04). Trusted: '
            'harness/ledger.py derivations of credit and duct loss.',
    'technique': 'TLA+ march spec: TLC design model + TLC trace validation '
                 'of gap/duct heat ledgers',
    'design_ref': 'DESIGN.md section 4, C02',
}

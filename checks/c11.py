"""C11 - duct-wall temperatures solve steady 1-D conduction with the stated
boundary conditions.

Spec: Duct.tla states the slab relations (flux in + generation = flux out
with each film coefficient; film flux = Fourier flux at both faces; mid-wall
on the parabola; adiabatic => zero outer flux; ordering without heating).
Binding: every call of the solver's duct routine in recorded sweeps (step 0,
every plane, region activation) and on generated states (film coefficients
over six decades, either temperature order, heating >= 0) becomes a Slab
event validated by TLC (Trace_Duct).
"""
import copy
import random
from concurrent.futures import ProcessPoolExecutor

import numpy as np

from harness import common, cases, scenarios, drive, ductobs
from harness.scenarios import bundle_type, make_core, flow_for

LEVEL = 'exploration'
FLUX_SCALE = 4.0e8   # W/m2, covers film fluxes of generated states


def record(args):
    label, case, max_steps = args
    dassh = common.import_dassh()
    d = common.workdir('c11-' + label)
    try:
        rec = ductobs.DuctRecorder(dassh, FLUX_SCALE)
        rec.expect_adiabatic = (case.get('gap_model', 'flow') == 'none')
        rec.use_own_htc = True
        try:
            inp, r = cases.build(dassh, case, str(d))
            ductobs.tag_walls(r, case)
            rec.watch_reactor(r)
            dm = {t.get('duct_material') for t in case['types'].values()}
            if len(dm) == 1:
                spec = case.get('materials', {}).get(next(iter(dm)), {})
                if '_table' in spec:
                    rec.duct_table = spec['_table']
            with rec:
                with drive.Recorder(dassh, r, []) as rr:
                    rr.sweep(max_steps=max_steps)
        except BaseException as e:
            rec.ev.append({'e': 'Crash', 'exc': type(e).__name__,
                           'msg': str(e)[:160]})
        return {'label': label, 'cfg': {'src': 'sweep'}, 'ev': rec.ev,
                'clipped': rec.clipped}
    finally:
        common.cleanup(d)


def generated_states(seed, n):
    """Apply the duct routine of real regions to generated states."""
    dassh = common.import_dassh()
    rng = random.Random(seed)
    d = common.workdir(f'c11gen{seed}')
    traces = []
    try:
        sl = dict(scenarios.single_lattice(rng, 'quick'))
        for key in ('rod2-adiabatic', 'rod3-dd-flowbyp', 'rod2-3duct',
                    'multi-simple', 'multi-6node',
                    'opt-dd-unequal-walls-regions',
                    'opt-3duct-unequal-walls-lowfi'):
            inp, r = cases.build(dassh, sl[key], str(d / key))
            ductobs.tag_walls(r, sl[key])
            asm = r.assemblies[0]
            rec = ductobs.DuctRecorder(dassh, FLUX_SCALE)
            with rec:
                for reg in asm.region:
                    for it in range(n):
                        nd = reg.temp['duct_mw'].shape[1]
                        T0 = rng.uniform(500, 900)
                        spread = rng.choice([0.0, 1.0, 30.0])
                        # nearly isothermal problems (differences of a few
                        # millikelvin across the walls) are solved like any
                        # other
                        tiny = it % 4 == 3
                        if tiny:
                            spread = 0.0
                        reg.temp['coolant_int'] = T0 + spread * np.array(
                            [rng.uniform(-1, 1) for _ in
                             range(reg.temp['coolant_int'].shape[0])])
                        if 'coolant_byp' in reg.temp:
                            reg.temp['coolant_byp'] = (
                                T0 + (rng.uniform(-3e-3, 3e-3) if tiny
                                      else rng.uniform(-40, 40))
                                + spread * np.array(
                                    [[rng.uniform(-1, 1) for _ in range(nd)]
                                     for _ in range(reg.temp['coolant_byp'
                                                             ].shape[0])]))
                        tg = T0 + (rng.choice([-1, 1]) * rng.uniform(
                            5e-4, 4e-3) if tiny else rng.uniform(-60, 60)
                        ) + np.array(
                            [rng.uniform(-1, 1) * spread for _ in range(nd)])
                        hg = 10 ** rng.uniform(1, 6) * np.array(
                            [rng.uniform(0.5, 2.0) for _ in range(nd)])
                        adia = rng.random() < 0.25
                        if reg.is_rodded:
                            f = 10 ** rng.uniform(-1, 2)
                            reg.coolant_int_params['htc'] = (
                                10 ** rng.uniform(1, 6) * np.array(
                                    [1.0, rng.uniform(0.5, 2),
                                     rng.uniform(0.5, 2)]))
                            if reg.n_bypass > 0:
                                reg.coolant_byp_params['htc'] = (
                                    10 ** rng.uniform(1, 6) * np.array(
                                        [[1.0, rng.uniform(0.5, 2)]
                                         for _ in range(reg.n_bypass)]))
                            if tiny or rng.random() < 0.3:
                                p = None if rng.random() < 0.5 else \
                                    np.zeros(nd * reg.n_duct)
                            else:
                                p = np.array([rng.uniform(0, 3e3) * f
                                              for _ in range(nd * reg.n_duct)])
                            # the same heating array handed to the wall
                            # solve twice: the second solve is for the same
                            # heating as the first
                            rec.p_truth = (None if p is None
                                           else np.array(p, copy=True))
                            reg._calc_duct_temp(p, tg, hg, adia)
                            reg._calc_duct_temp(p, tg, hg, not adia)
                            rec.p_truth = None
                        else:
                            reg.coolant_params['htc'] = 10 ** rng.uniform(1, 6)
                            reg._calc_duct_temp(tg, hg, adia)
            traces.append({'label': f'gen-{key}-{seed}',
                           'cfg': {'src': 'generated'}, 'ev': rec.ev,
                           'clipped': rec.clipped})
    finally:
        common.cleanup(d)
    return traces


def run(tier, res, replay=None):
    rng = random.Random(common.seed() * 7919 + 11)
    sl = dict(scenarios.single_lattice(rng, tier))
    keys = ['rod2-adiabatic', 'rod3-flowgap', 'rod3-dd-flowbyp',
            'rod2-dd-stagnant', 'multi-simple', 'multi-6node',
            'lowfi-simple', 'rod2-3duct', 'rod2-convapprox', 'opt-se2geo',
            'opt-3duct-convapprox', 'opt-dd-regions-adiabatic-gravity',
            'opt-uctd-grid-regions', 'opt-delta-temp-bc-noflowgap',
            'opt-five-regions', 'opt-only-lower-region-dd',
            'opt-htc-custom-dd', 'opt-lowfi-cf-float',
            'opt-dd-unequal-walls-regions', 'opt-3duct-unequal-walls-lowfi']
    lab = [(k, sl[k], 60 if tier == 'quick' else None) for k in keys]
    # un-rodded regions of both kinds with the adiabatic option
    for k in ('multi-6node', 'multi-simple', 'multi-convfactor'):
        c = copy.deepcopy(sl[k])
        c['gap_model'] = 'none'
        c['bypass_fraction'] = 0.0
        lab.append((k + '-adiabatic', c, None))
    # temperature-dependent coolant entering single-node regions above a
    # heated bundle, coupled to a gap: the wall of a newly entered region is
    # solved with the film coefficient of the coolant that enters it
    from harness.scenarios import add_regions
    for nm, up in (('simple', dict(model='simple', vf_coolant=0.35)),
                   ('simple-cf', dict(model='simple', vf_coolant=0.4,
                                      convection_factor=0.7))):
        t_ = add_regions(bundle_type(2), 0.6, upper=up,
                         lower=dict(model='simple', vf_coolant=0.3))
        lab.append((f'sodium-regions-{nm}', make_core(
            rng, {'a1': t_}, [(1, 1, 'a1')], [flow_for(t_, 0.05)],
            gap_model='flow', bypass_fraction=0.05, coolant='sodium',
            ncell=3, cell_bounds=[0.0, 0.15, 0.45, 0.6]), None))
    # a stagnant gap between two ducts filled with a coolant whose
    # conductivity changes with temperature, heat crossing it: the walls on
    # both sides are solved with the film of the gap as it is at that level
    from harness.cases import fitted_type as _ft
    DS = bundle_type(2, nd=2)
    DS['bypass_gap_flow_fraction'] = 0.0
    for gm in ('flow', 'none'):
        lab.append((f'sodium-dd-stagnant-{gm}', make_core(
            rng, {'a1': copy.deepcopy(DS)}, [(1, 1, 'a1')],
            [flow_for(DS, 0.03)], gap_model=gm,
            bypass_fraction=(0.05 if gm == 'flow' else 0.0),
            coolant='sodium', ncell=2), None))
    # the duct material given as a table whose conductivity is tabulated on
    # a finer temperature grid than its other properties (no entry = 0)
    tt = bundle_type(2)
    tt['duct_material'] = 'walltab'
    ctab = make_core(rng, {'a1': tt}, [(1, 1, 'a1')], [flow_for(tt, 0.06)],
                     gap_model='flow', bypass_fraction=0.05, ncell=2,
                     comps=('pins', 'duct', 'cool'))
    Ts = [300.0, 500.0, 600.0, 650.0, 700.0, 750.0, 800.0, 900.0, 1100.0]
    ctab['materials']['walltab'] = {'_table': {
        'temperature': Ts,
        'density': [7900.0, 7800.0, 0.0, 0.0, 7700.0, 0.0, 0.0, 7600.0,
                    7500.0],
        'heat_capacity': [500.0, 540.0, 0.0, 0.0, 570.0, 0.0, 0.0, 600.0,
                          630.0],
        'thermal_conductivity': [14.0, 17.5, 21.0, 16.0, 23.5, 19.0, 25.5,
                                 24.0, 27.0]}}
    for p_ in ctab['power'].values():
        p_['duct'] = [[[6.0 * x for x in co] for co in cell]
                      for cell in p_['duct']]
    lab.append(('duct-material-table-uneven-columns', ctab, None))
    cl = scenarios.core_lattice(rng, tier)
    lab += [(l, c, 40 if tier == 'quick' else None) for l, c in
            (cl[:3] if tier == 'quick' else cl)]
    # one double-duct type at every position, flows differing from position
    # to position: every assembly solves its walls with its own bypass film
    from harness.scenarios import fitted_type, layout_positions
    DD = fitted_type(2, 0.060, nd=2, bypass_gap_flow_fraction=0.1)
    fb = flow_for(DD, 0.1)
    lab.append(('core-one-dd-type-flows', make_core(
        rng, {'D': DD}, [(r_, p_, 'D') for (r_, p_) in layout_positions(4)],
        [fb, 0.3 * fb, 1.4 * fb, 0.55 * fb], gap_model='flow',
        bypass_fraction=0.03), 40 if tier == 'quick' else None))
    with ProcessPoolExecutor(max_workers=min(common.NCPU, len(lab))) as ex:
        traces = list(ex.map(record, lab))
        ngen = 4 if tier == 'quick' else 16
        for g in ex.map(generated_states_n,
                        [(common.seed() * 100 + i, 12 if tier == 'quick'
                          else 40) for i in range(ngen)]):
            traces += g
    nsh = min(common.NCPU, len(traces))
    shards = [traces[i::nsh] for i in range(nsh)]
    from concurrent.futures import ThreadPoolExecutor

    def val(item):
        i, sh = item
        return common.tlc_traces('Trace_Duct', 'Trace_Duct.cfg',
                                 [{'cfg': t['cfg'], 'ev': t['ev']} for t in sh],
                                 tag=f'duct{i}')
    with ThreadPoolExecutor(max_workers=nsh) as ex:
        outs = list(ex.map(val, enumerate(shards)))
    nslab = 0
    for sh, out in zip(shards, outs):
        res.add_tlc(dict(out, ok=True), 'trace validation of duct-wall solves')
        res.add_traces(len(sh))
        for tid, (v, l, info) in out['verdicts'].items():
            tr = sh[tid - 1]
            n = sum(1 for e in tr['ev'] if e['e'] == 'Slab')
            nslab += n
            res.add_eval(n)
            res.distinct(tr['label'], n > 0)
            if v == 'accept' and tr.get('clipped'):
                # a flux beyond the scale of the projection in a trace that
                # was nevertheless accepted: the evaluation proves nothing
                raise common.MachineryError(
                    f'flux scale exceeded in {tr["label"]}')
            if v != 'accept':
                clauses = [c.strip('" ') for c in info.strip('{}').split(',')
                           if c.strip()]
                bad = tr['ev'][l - 1] if 0 < l <= len(tr['ev']) else None
                for cl_ in clauses:
                    res.violation(f'case={tr["label"]};clause={cl_}',
                                  f'duct solve rejected at event {l}: {info}',
                                  {'label': tr['label'], 'event': bad})
        common.cleanup(out['dir'])
    res.cov['slab_events'] = nslab
    res.sample({'case': traces[0]['label'], 'event': traces[0]['ev'][0]})
    res.rule('one evaluation = one call of the duct routine for one duct '
             '(<= 30 cells each checked); cases = recorded sweeps (all region '
             'kinds, 1-3 ducts, adiabatic / coupled) + generated states (film '
             'coefficients 1e1..1e6, either temperature order, heating >= 0, '
             'None/zero power); distinct by sweep / generator label')
    res.trusted('harness/ductobs.py (boundary data and flux derivation)',
                'spec/Duct.tla')
    res.assume('fluxes at 2^-30 of 4e8 W/m2 (0.37 W/m2), 4 quanta; '
               'temperatures at 2^-18 K; conductivity evaluated at the '
               'average mid-wall temperature before the solve, with an '
               'allowance for the change over the solve')


def generated_states_n(a):
    return generated_states(*a)


META = {
    'text': 'Relational monitor with TLC as evaluator: every duct-wall solve '
            'of recorded sweeps and of generated boundary states is checked '
            'against the slab relations of Duct.tla (flux balance with both '
            'film coefficients, Fourier consistency at both faces, mid-wall '
            'parabola, adiabatic branch, ordering without heating).',
    'note': 'No state space worth exploring (closed-form relation): level is '
            'exploration. Trusted: harness/ductobs.py derives boundary data '
            'independently (which coolant / film coefficient faces which '
            'duct).',
    'technique': 'TLA+ relational spec evaluated by TLC on recorded and '
                 'generated duct solves (trace validation)',
    'design_ref': 'DESIGN.md section 4, C11',
}

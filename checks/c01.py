"""C01 - every assembly coolant energy balance closes at every axial step.

Design level: MC_March (contracts + schedule => sweep balance), with the
Neg_* configurations that must fail.
Code binding: recorded sweeps of the single-assembly and core lattices; one
AsmStep event per assembly per plane is validated by TLC against March.tla
(enthalpy rise derived from temperatures and flows = deposited heat + wall
heat derived from surface temperatures / film coefficients / perimeters;
code tallies equal the derived ones; region changes carry the mixed mean).
Temperature-dependent coolant: per-step residual bounded by the property
change over the step, and sweep residual halves when the step is halved.
"""
import copy
import random

from harness import common, scenarios, marchcheck, opprobe
from harness.marchcheck import C01_CLAUSES

LEVEL = 'model_checking'


def design(res, tier):
    r = common.tlc_model('MC_March', 'MC_March.cfg', timeout=1800)
    common.require_ok(r, 'march design model')
    res.add_tlc(r, 'design: contracts + schedule => SweepBal/AsmBal/CoreBal')
    r = common.tlc_model('MC_March', 'Neg_March_LeakyWall.cfg', timeout=600)
    common.require_violation(r)
    res.add_tlc(r, 'negative: a wall that keeps heat must break AsmBal')
    if tier == 'thorough':
        r = common.tlc_model('MC_March', 'MC_March_SixNode.cfg', timeout=1800)
        common.require_ok(r, 'march six-node variant')
        res.add_tlc(r, 'design: six-node lag variant')


def lag_pairs(rng, tier):
    """(label, case) pairs with temperature-dependent sodium at dz, dz/2."""
    out = []
    t = scenarios.bundle_type(3)
    base = scenarios.make_core(rng, {'a1': t}, [(1, 1, 'a1')],
                               [scenarios.flow_for(t)], gap_model='flow',
                               bypass_fraction=0.05, coolant='sodium')
    # (with a pin model: whatever the pin temperature calculation does to
    # the shared coolant state must not reach the coolant energy equation)
    from harness import trackcheck
    trackcheck.with_pins(base)
    for name, dz in (('lag-dz', 0.002), ('lag-dz2', 0.001)):
        c = copy.deepcopy(base)
        c['setup']['axial_mesh_size'] = dz
        out.append((name, c))
    # temperature-dependent coolant in the un-rodded models, adiabatic and
    # coupled: every step within the property-lag bound of that step
    from harness.scenarios import add_regions
    for nm, gm in (('adiabatic', 'none'), ('flowgap', 'flow')):
        t = add_regions(scenarios.bundle_type(2), 0.6,
                        lower=dict(model='simple', vf_coolant=0.3),
                        upper=dict(model='6node', vf_coolant=0.35))
        c = scenarios.make_core(rng, {'a1': t}, [(1, 1, 'a1')],
                                [scenarios.flow_for(t)], gap_model=gm,
                                bypass_fraction=(0.05 if gm == 'flow' else 0),
                                coolant='sodium', ncell=3,
                                cell_bounds=[0.0, 0.15, 0.45, 0.6])
        out.append((f'lag-regions-{nm}', c))
    # the flow rate derived from a requested outlet temperature / temperature
    # rise (the derivation evaluates the coolant at another temperature; the
    # sweep still starts with the coolant as it is at the inlet)
    for nm, kw in (('outlet-temp', {'outlet_temp': 623.15 + 160.0}),
                   ('delta-temp', {'delta_temp': 140.0})):
        c = copy.deepcopy(base)
        c['setup']['axial_mesh_size'] = 0.002
        c['assign'] = [(a[0], a[1], a[2], dict(kw)) for a in c['assign']]
        out.append((f'lag-bc-{nm}', c))
    return out


def run(tier, res, replay=None):
    rng = random.Random(common.seed() * 7919 + 1)
    design(res, tier)
    lab = scenarios.single_lattice(rng, tier)
    cores = scenarios.core_lattice(rng, tier)
    lab += cores[:2] if tier == 'quick' else cores
    # cores with the other gap models and an all-low-fidelity core (only the
    # assembly-side clauses of C01 apply to them)
    for gm in ('no_flow', 'duct_average'):
        c = copy.deepcopy(cores[0][1])
        c['gap_model'] = gm
        lab.append((f'{cores[0][0]}-{gm}', c))
    from harness.scenarios import fitted_type, layout_positions, make_core, \
        flow_for
    U = fitted_type(3, 0.060, use_low_fidelity_model=True,
                    low_fidelity_model='simple')
    p7 = layout_positions(7)
    lab.append(('7-all-lowfi', make_core(
        rng, {'U': U}, [(r_, p_, 'U') for (r_, p_) in p7],
        [flow_for(U, 0.1) * f for f in (1, .9, .8, 1.1, .7, 1.2, .6)],
        gap_model='flow', bypass_fraction=0.03)))
    # wall heating in multi-duct assemblies with constant properties: the
    # heat the coolant receives through the walls is the heat deposited in
    # them minus what leaves the outer surface (nothing, when adiabatic), so
    # the whole-assembly clauses are judged here too
    from harness.scenarios import bundle_type
    whole = {}
    for nm, nd, gm in (('dd-wallheat-adiabatic', 2, 'none'),
                       ('dd-wallheat-flowgap', 2, 'flow'),
                       ('d3-wallheat-adiabatic', 3, 'none')):
        t_ = bundle_type(3 if nd == 2 else 2, nd=nd,
                         wall=[0.002, 0.004, 0.003][:nd],
                         bypass_gap_flow_fraction=0.08)
        c = make_core(rng, {'a1': t_}, [(1, 1, 'a1')], [flow_for(t_)],
                      gap_model=gm,
                      bypass_fraction=(0.05 if gm != 'none' else 0.0),
                      comps=('pins', 'duct', 'cool'), power_order=1)
        # most of the power in the duct walls
        for p_ in c['power'].values():
            p_['duct'] = [[[8.0 * x for x in co] for co in cell]
                          for cell in p_['duct']]
        lab.append((nm, c))
        whole[nm] = ('AssemblyBalance', 'DuctWallsStoreNoHeat')
    pairs = lag_pairs(rng, tier)
    results = marchcheck.run_cases(lab + pairs, res, C01_CLAUSES,
                                   extra=whole)
    # ---- lag class: sweep residual shrinks linearly with the step
    rd = {tr['label']: tr for tr, v, l, cl in results}
    if 'lag-dz' in rd and 'lag-dz2' in rd:
        r1 = abs(rd['lag-dz']['meta']['resid'][0])
        r2 = abs(rd['lag-dz2']['meta']['resid'][0])
        scale = abs(rd['lag-dz']['meta']['H'][0])
        res.cov['lag_pair'] = {'resid_dz': r1, 'resid_dz_half': r2,
                               'enthalpy_rise': scale,
                               'ratio': (r2 / r1 if r1 else None)}
        # first order: r2 ~ r1/2 ; allow [0.35, 0.65] and an absolute floor
        if r1 > 1e-7 * scale and not (0.3 * r1 <= r2 <= 0.7 * r1):
            res.violation('case=lag-pair;clauses=LagShrinksLinearly',
                          f'property-lag residual {r1:.6g} W at dz and '
                          f'{r2:.6g} W at dz/2 (ratio {r2 / r1:.3f})',
                          {'pair': ['lag-dz', 'lag-dz2']})
    # ---- exchange between subchannels sums to zero (operator probes)
    opprobe.run_probes(res, tier, rng, focus='C01')
    tr0 = results[0][0]
    res.sample({'case': tr0['label'], 'cfg': tr0['cfg'],
                'event': next(e for e in tr0['ev'] if e['e'] == 'AsmStep')})
    res.sample({'cases': [t[0]['label'] for t in results]})
    res.rule('one case = one recorded sweep of a lattice scenario (region '
             'kinds x duct counts x bypass mode x gap model x options, '
             'random asymmetric power); every AsmStep / Region event of '
             'every plane is a checked obligation; a case is non-trivial '
             'if some step moves heat; distinct by scenario label')
    res.trusted('harness/ledger.py (independent derivation of enthalpy and '
                'wall heat)', 'harness/drive.py wrappers', 'spec/March.tla')
    res.assume('energy terms compared at 2^-30 of (4 x total power)/64 per '
               'step, 6 quanta; constant-property coolant for exact '
               'statements; sodium for the lag statements')


META = {
    'text': 'TLC model-checks the march design (972k states: local '
            'contracts + schedule imply sweep/core balances; two negative '
            'variants must fail) and validates every assembly step of '
            'recorded real sweeps against the same contracts: enthalpy rise '
            '= deposited heat + wall heat, code tallies = derived values, '
            'mixed mean carried across region changes, exchange operator '
            'columns conserve energy (probe).',
    'note': 'Exactness asserted for constant-property coolants at ~1e-8 of '
            'a step heat; temperature-dependent coolants by a per-step lag '
            'bound and a (dz, dz/2) pair. Trusted: harness/ledger.py '
            'derivations, quantisation.',
    'technique': 'TLA+ march spec: TLC design model + TLC trace validation '
                 'of per-step energy ledgers and operator probes',
    'design_ref': 'DESIGN.md section 4, C01',
}

"""C16 - runs are repeatable: set-up never mutates the input; serial = pool =
one at a time.

Design: RunControl.tla models run_dassh: the serial loop and the pool with
its per-submission input copies, extra constructions from one input object,
and one directory per time point.  TLC proves InputUnchanged,
ScheduleIndependent, OwnDirectory and AllWritten for the set-up that only
reads its input, and refutes them for three variants (set-up stores values
in the input, set-up appends to a list owned by the input, shared directory).
Code: generated inputs with 1..4 time points (pin / fuel models, hot-spot and
table requests, dumps, requested planes, multi-region and unrodded
assemblies, cores) are executed by the real code under every schedule:
run_dassh serial, again from the same input object, in a multiprocessing
pool, each time point alone, and direct constructions in shuffled order with
all models built before any sweep.  Wrappers on Reactor.__init__ /
temperature_sweep / postprocess log content digests of the input before and
after, of the whole model, of the whole swept reactor and of the output
directory; TLC validates the merged history against Trace_Run.
"""
import copy
import random
from concurrent.futures import ProcessPoolExecutor

from harness import common, scenarios, runctl, trackcheck
from harness.scenarios import make_core, flow_for, layout_positions
from harness.cases import bundle_type, fitted_type

LEVEL = 'model_checking'
FUEL = {'gap_thickness': 0.0, 'clad_material': 'ht9',
        'r_frac': [0.0, 0.33333, 0.66667], 'pu_frac': [0.2, 0.2, 0.2],
        'zr_frac': [0.1, 0.1, 0.1], 'porosity': [0.25, 0.2, 0.15]}


def design(res):
    for cfg, why in (('MC_RunControl.cfg', 'design: serial loop + rebuilds'),
                     ('MC_RunControl_Pool.cfg', 'design: pool, 4 time points, '
                      '2 workers, any order')):
        r = common.tlc_model('RunControl', cfg, timeout=900)
        common.require_ok(r, cfg)
        res.add_tlc(r, why)
    for cfg, inv, why in (
            ('Neg_RunControl_Writes.cfg', 'InputUnchanged',
             'negative: set-up that stores values in the input'),
            ('Neg_RunControl_Aliases.cfg', 'ScheduleIndependent',
             'negative: set-up appending to a list owned by the input makes '
             'later models depend on earlier time points'),
            ('Neg_RunControl_SharedDir.cfg', 'OwnDirectory',
             'negative: all time points in one directory')):
        r = common.tlc_model('RunControl', cfg, timeout=900)
        common.require_violation(r, inv)
        res.add_tlc(r, why)


def timepoints(rng, build, ntp):
    """The case of `build(ncell, bounds)` with ntp power distributions whose
    axial meshes differ."""
    base = build(2, None)
    pw = [base['power']]
    L = base['L']
    for k in range(1, ntp):
        nc = rng.choice([2, 3, 4])
        cuts = sorted(round(rng.uniform(0.1, 0.9) * L, 3) for _ in range(nc - 1))
        b = [0.0] + cuts + [L]
        if len(set(b)) != len(b):
            b = None
        pw.append(build(nc, b)['power'])
    base['powers'] = pw
    return base


def cases_for(rng, tier):
    out = []
    OF = 0.060

    def single(label, t, ntp, gap='flow', setup=None, mats=None, **kw):
        def build(nc, b):
            c = make_core(rng, {'a1': copy.deepcopy(t)}, [(1, 1, 'a1')],
                          [flow_for(t)], gap_model=gap,
                          bypass_fraction=(0.05 if gap != 'none' else 0.0),
                          ncell=nc, cell_bounds=b, **kw)
            return c
        c = timepoints(rng, build, ntp)
        if setup:
            c['setup'].update(copy.deepcopy(setup))
        out.append((label, c))
        return c

    def core(label, types, names, ntp, setup=None, **kw):
        p = layout_positions(len(names))
        lay = [(r_, p_, names[i]) for i, (r_, p_) in enumerate(p)]

        def build(nc, b):
            flows = [flow_for(types[n], 0.1) for (_, _, n) in lay]
            return make_core(rng, copy.deepcopy(types), lay, flows,
                             gap_model='flow', bypass_fraction=0.03,
                             ncell=nc, cell_bounds=b, **kw)
        c = timepoints(rng, build, ntp)
        if setup:
            c['setup'].update(copy.deepcopy(setup))
        out.append((label, c))
        return c

    dump = {'Dump': {'coolant': True, 'duct': True, 'interval': 0.1},
            'axial_plane': [0.31, 0.07]}
    c = single('rod2-dump-planes-3tp', bundle_type(2), 3, setup=dump)
    # scaling and normalisation act on the arrays read from the power file:
    # a later build must start from the file again
    c['power_scaling_factor'] = 1.5
    c = single('rod3-pins-hotspot-2tp', bundle_type(3), 2,
               setup={'axial_plane': [0.2]})
    trackcheck.with_pins(c)
    c['types']['a1']['Hotspot'] = {
        'h1': {'temperature': 'clad_mw', 'subfactors': 'fftf_clad_mw'},
        'h2': {'temperature': 'fuel_cl', 'subfactors': 'fftf_fuel_cl'}}
    c['setup']['Dump'] = {'pins': True, 'interval': 0.2}
    c = single('rod3-dd-metalfuel-2tp', bundle_type(
        3, nd=2, bypass_gap_flow_fraction=0.08), 2)
    c['total_power'] = 2.5e5
    c['power_scaling_factor'] = 0.8
    # boundary condition given as a temperature rise: the flow rate is
    # derived from each time point's power at set-up
    c['assign'] = [[a[0], a[1], a[2], {'DELTA_TEMP': 120.0}]
                   for a in c['assign']]
    c['types']['a1']['FuelModel'] = copy.deepcopy(FUEL)
    t = scenarios.add_regions(bundle_type(2), 0.6,
                              lower=dict(model='simple', vf_coolant=0.3),
                              upper=dict(model='6node', vf_coolant=0.35))
    single('multi-region-1tp', t, 1, setup={'Dump': {'all': True}})
    A, B = fitted_type(2, OF), fitted_type(3, OF)
    U = fitted_type(3, OF, use_low_fidelity_model=True,
                    low_fidelity_model='simple')
    c = core('7-mixed-pins-tables-4tp', {'A': A, 'B': B, 'U': U},
             ['B', 'A', 'U', 'A', 'B', 'A', 'A'], 4,
             setup={'AssemblyTables': {
                 't1': {'type': 'coolant_subchannel', 'assemblies': [1, 2],
                        'axial_positions': [0.3, 0.45]},
                 't2': {'type': 'duct_mw', 'assemblies': [1],
                        'axial_positions': [0.3]}}})
    trackcheck.with_pins(c)
    # mixed kinds of boundary condition in the core
    for i, a in enumerate(c['assign']):
        if i % 3 == 1:
            a[3] = {'OUTLET_TEMP': 760.0 + 5 * i}
        elif i % 3 == 2:
            a[3] = {'DELTA_TEMP': 110.0}
    # user film constants together with a numeric convection factor in
    # un-rodded regions and in a low-fidelity assembly (lists of the parsed
    # input reach the regions), temperature-dependent coolant with a
    # property-update tolerance and a flowing gap (material objects of the
    # parsed input reach the core)
    R = scenarios.add_regions(
        fitted_type(2, OF), 0.6,
        upper=dict(model='simple', vf_coolant=0.4, convection_factor=0.5,
                   htc_params=[0.025, 0.8, 0.8, 7.0]),
        lower=dict(model='6node', vf_coolant=0.3, convection_factor=0.7,
                   htc_params=[0.03, 0.75, 0.8, 6.0]))
    UL = fitted_type(3, OF, use_low_fidelity_model=True,
                     low_fidelity_model='simple', convection_factor=0.6,
                     htc_params_duct=[0.023, 0.8, 0.4, 5.0])
    core('4-htc-lists-sodium-updtol-2tp', {'R': R, 'UL': UL},
         ['R', 'UL', 'R', 'R'], 2, coolant='sodium',
         setup={'param_update_tol': 0.01})
    if tier == 'thorough':
        single('rod2-adiabatic-4tp', bundle_type(2), 4, gap='none')
        c = single('rod3-sodium-2tp', bundle_type(3), 2, coolant='sodium',
                   setup=dump)
        t6 = fitted_type(2, OF, use_low_fidelity_model=True,
                         low_fidelity_model='6node')
        DD = fitted_type(3, OF, nd=2, wall=0.002, byp=0.0015)
        c = core('7-dd-6node-3tp', {'A': A, 'DD': DD, 'U6': t6},
                 ['DD', 'A', 'U6', 'A', 'A', 'U6', 'A'], 3,
                 setup={'Dump': {'gap': True, 'average': True,
                                 'maximum': True, 'interval': 0.15}})
        c = core('19-mixed-2tp', {'A': A, 'B': B},
                 ['A' if i % 3 else 'B' for i in range(19)], 2)
        trackcheck.with_pins(c)
        for t_ in c['types'].values():
            t_['Hotspot'] = {'h1': {'temperature': 'coolant',
                                    'subfactors': 'fftf_clad_mw'}}
        single('rod2-convapprox-2tp', bundle_type(2), 2,
               setup={'conv_approx': True,
                                 'conv_approx_dz_cutoff': 0.01})
    return out


def run(tier, res, replay=None):
    rng = random.Random(common.seed() * 7919 + 16)
    design(res)
    labelled = cases_for(rng, tier)
    jobs = []
    for i, (lab, c) in enumerate(labelled):
        ntp = len(c['powers'])
        jobs.append((lab, c, {'seed': common.seed() * 100 + i,
                              'n_cpu': 2 + (i % 3),
                              'alone': 'all' if (tier == 'thorough'
                                                 or ntp <= 2) else 'one'}))
    if replay:
        import json
        rp = json.load(open(replay))
        rp = rp.get('replay', rp)
        jobs = [j for j in jobs if j[0] == rp['label']] or jobs
    with ProcessPoolExecutor(max_workers=min(common.NCPU // 2, len(jobs))) as ex:
        traces = list(ex.map(runctl.execute, jobs))
    out = common.tlc_traces('Trace_Run', 'Trace_Run.cfg',
                            [{'ntp': t['ntp'], 'nrun': t['nrun'],
                              'ev': t['ev']} for t in traces], tag='run')
    res.add_tlc(dict(out, ok=True), 'trace validation of execution histories')
    res.add_traces(len(traces))
    cov = []
    for tid, (v, l, info) in out['verdicts'].items():
        tr = traces[tid - 1]
        nb = sum(1 for e in tr['ev'] if e['e'] == 'Build')
        res.add_eval(nb)
        res.distinct(tr['label'], nb >= 2)
        cov.append({'case': tr['label'], 'time_points': tr['ntp'],
                    'schedules': tr['modes'], 'builds': nb,
                    'output_files': max([e.get('nfiles', 0) for e in tr['ev']]
                                        + [0])})
        if v != 'accept':
            clauses = set(c.strip('" ') for c in info.strip('{}').split(',')
                          if c.strip())
            bad = tr['ev'][l - 1] if 0 < l <= len(tr['ev']) else None
            mode = tr['modes'][bad['run'] - 1] if bad and 'run' in bad else '?'
            for cl in sorted(clauses):
                res.violation(
                    f'case={tr["label"]};clause={cl}',
                    f'execution history rejected (first failing event {l}, '
                    f'schedule {mode}): {sorted(clauses)}',
                    {'label': tr['label'], 'first_failing_event': bad,
                     'schedule': mode, 'case': dict(labelled)[tr['label']]})
    common.cleanup(out['dir'])
    res.cov['cases'] = cov
    res.sample({'case': traces[0]['label'], 'events': traces[0]['ev'][:5]})
    res.rule('one case = one generated input executed under all schedules '
             '(serial, again, pool, each time point alone, shuffled direct '
             'constructions); every Build / Sweep / Write of every schedule '
             'is a checked obligation (evaluations = Build events); '
             'non-trivial if at least two constructions were compared')
    res.trusted('harness/runctl.py (content digests: sha1 over the whole '
                'object graph, floats by bit pattern; only _starttime, '
                'loggers and the run directory prefix are masked)',
                'spec/Trace_Run.tla')
    res.assume('user-power inputs (binary flux inputs are not available); '
               'pool = multiprocessing fork on this machine; output files '
               'compared byte for byte except the "Executed <time>" line of '
               'dassh.out')


META = {
    'text': 'TLC model-checks the run-control design (serial loop, pool with '
            'per-submission copies, rebuilds; three negative variants fail) '
            'and validates histories of the real code: each generated input '
            '(1-4 time points; pin/fuel models, hot-spot and table requests, '
            'dumps) is run serially, again from the same input object, in a '
            'multiprocessing pool, one time point at a time and by shuffled '
            'direct constructions; digests show the input untouched by '
            'every build and sweep, and model, swept state and output files '
            'of each time point bitwise equal across all schedules, one '
            'directory each.',
    'note': 'Digests cover the whole object graph; orificing-driven rebuilds '
            'are represented by the "again" and "shuffled" schedules (the '
            'orificing stages themselves need binary flux data).',
    'technique': 'TLA+ run-control spec: TLC design model + TLC trace '
                 'validation of digest histories recorded under serial / '
                 'pool / single / shuffled schedules',
    'design_ref': 'DESIGN.md section 4, C16',
}

"""C04 - the selected axial step keeps the explicit march positive.

The explicit update of every coolant field (bundle, bypass, low-fidelity
node, inter-assembly gap) is affine for frozen properties.  The harness
extracts the operator the REAL update method applies at the reactor-chosen
step (unit vectors in, columns out) at several property temperatures between
inlet and outlet, and TLC checks on it (Trace_Op.tla): weights >= 0, rows
sum to one, support within the geometric adjacency of Bundle.tla, the step
limit the code derives is not above the largest positive step, every
subchannel type of the bundle has a limit (signatures of Bundle.tla).  By
linearity this decides positivity for every temperature field.  No-flow and
duct-average gap models are probed as maps (convexity).  Recorded sweeps add
the consequences: zero power => flat, power >= 0 => nothing below inlet.
"""
import copy
import random

from harness import common, scenarios, marchcheck, opprobe
from harness.marchcheck import C04_CLAUSES
from harness.scenarios import bundle_type, add_regions, make_core, flow_for

LEVEL = 'model_checking'


def c04_cases(rng, tier):
    lab = opprobe.probe_cases(rng, tier)
    cl = scenarios.core_lattice(rng, tier)
    # gap-limited: very small inter-assembly flow
    c = copy.deepcopy(cl[0][1])
    c['bypass_fraction'] = 0.004
    lab.append(('7-mixed-gaplimited', c))
    # low-fidelity regions with convection factors
    t = add_regions(bundle_type(3), 0.6,
                    lower=dict(model='simple', vf_coolant=0.3,
                               convection_factor=0.35),
                    upper=dict(model='6node', vf_coolant=0.4,
                               convection_factor=0.5))
    lab.append(('multi-convfactor', make_core(
        rng, {'a1': t}, [(1, 1, 'a1')], [flow_for(t, 0.02)],
        gap_model='flow', bypass_fraction=0.05)))
    t = bundle_type(3, use_low_fidelity_model=True,
                    low_fidelity_model='simple', convection_factor=0.3)
    lab.append(('lowfi-simple-cf', make_core(
        rng, {'a1': t}, [(1, 1, 'a1')], [flow_for(t, 0.004)],
        gap_model='flow', bypass_fraction=0.05)))
    # user step requests above and below the limit
    sl = dict(scenarios.single_lattice(rng, tier))
    for name, dz in (('user-dz-above', 0.009), ('user-dz-below', 0.0012)):
        c = copy.deepcopy(sl['rod3-flowgap'])
        c['setup']['axial_mesh_size'] = dz
        lab.append((name, c))
    # adiabatic double duct with a large flowing bypass
    t = bundle_type(3, nd=2, byp=0.003, bypass_gap_flow_fraction=0.6)
    lab.append(('dd-adiabatic-bigbyp', make_core(
        rng, {'a1': t}, [(1, 1, 'a1')], [flow_for(t, 0.004)],
        gap_model='none')))
    return lab


def sweep_cases(rng, tier):
    sl = dict(scenarios.single_lattice(rng, tier))
    out = []
    for k in ('rod2-adiabatic', 'rod3-flowgap', 'rod3-dd-flowbyp',
              'multi-simple', 'multi-6node', 'lowfi-6node',
              'rod2-convapprox'):
        out.append((k, sl[k]))
        z = copy.deepcopy(sl[k])
        for aid in z['power']:
            for comp in ('pins', 'duct', 'cool'):
                arr = z['power'][aid].get(comp)
                if arr is not None:
                    z['power'][aid][comp] = [[[0.0 for _ in co] for co in cell]
                                             for cell in arr]
        out.append((k + '-zero', z))
    cl = scenarios.core_lattice(rng, tier)
    out.append(cl[0])
    return out


def run(tier, res, replay=None):
    rng = random.Random(common.seed() * 7919 + 4)
    r = common.tlc_model('MC_Bundle', 'MC_Bundle.cfg', workers=2,
                         timeout=1800)
    common.require_ok(r, 'Bundle signatures')
    res.add_tlc(r, 'design: neighbour-type signatures per ring count '
                   '(which step limits must exist)')
    opprobe.run_probes(res, tier, rng, focus='C04',
                       cases_override=c04_cases(rng, tier))
    results = marchcheck.run_cases(sweep_cases(rng, tier), res, C04_CLAUSES,
                                   opts={'check_power': False})
    res.rule('one case = one operator probe (region or gap, at one property '
             'temperature, at the reactor-chosen step) or one recorded '
             'sweep; every row / column / limit of the operator is a checked '
             'obligation; distinct by probe label; all non-trivial')
    res.trusted('harness/opprobe.py (unit-vector probing, state restored)',
                'spec/Trace_Op.tla', 'spec/Bundle.tla')
    res.assume('operator entries at 2^-27, 4 quanta; properties frozen at '
               'the probe temperature; 2 (quick) / 4 (thorough) '
               'temperatures between inlet and estimated outlet')


META = {
    'text': 'The affine update operator of every coolant field is extracted '
            'from the real update methods at the reactor-chosen step and '
            'judged by TLC: non-negative weights, unit row sums, support '
            'within Bundle.tla adjacency, code step limit <= largest '
            'positive step, a limit for every subchannel signature; plus '
            'recorded zero-power / positive-power sweeps (no undershoot, no '
            'new extremum).',
    'note': 'By linearity the operator clauses hold for every temperature '
            'field at the probed property temperatures; temperature '
            'dependence sampled at 2-4 temperatures. Trusted: '
            'harness/opprobe.py.',
    'technique': 'TLA+ operator-probe spec: TLC validation of the extracted '
                 'update operators against Bundle.tla + march traces',
    'design_ref': 'DESIGN.md section 4, C04',
}

"""C05 - axial mesh is finite, monotone, exact on boundaries, within limit.

Design: MC_AxialMesh explores every boundary subset of a small core, every
stability limit (incl. one that floors to zero) and every requested step:
monotone, ends exactly at the core length, every boundary is a plane, step
within the limit, request honoured iff below the limit, and termination
(liveness, no state constraint); the variant that marches with a zero step
(Neg_AxialMesh_Hang) must violate Termination.
Code: (a) the same instance lattice, scaled to metres (also with 1e-7 and
1e-13 m decimal noise on the boundaries), is replayed through the real
Reactor._setup_overall_axial_mesh_req / _setup_zpts / _check_dz on a
stand-in object and each Select / Plane step is validated by TLC;
(b) full Reactor constructions (regions, power meshes, requested planes,
user steps; and a gap flow so small that the requirement floors to zero, in
a subprocess with a time limit) are validated the same way.
"""
import copy
import json
import os
import random
import subprocess
import sys
from concurrent.futures import ProcessPoolExecutor, ThreadPoolExecutor

import numpy as np

from harness import common, cases, scenarios, axmesh
from harness.scenarios import bundle_type, add_regions, make_core, flow_for

LEVEL = 'model_checking'
FOCUS = None


def replay_chunk(args):
    idx, insts = args
    dassh = common.import_dassh()
    return [axmesh.trace_for(dassh, B, lim, usr, f'replay{idx}-{i}')
            for i, (B, lim, usr) in enumerate(insts)]


def build_one(args):
    """Full Reactor construction in a subprocess with a time limit."""
    label, case = args
    d = common.workdir('c05-' + label)
    try:
        path = cases.write_case(case, str(d))
        code = (
            "import sys, json\n"
            "sys.path.insert(0, %r)\n"
            "import resource\n"
            "resource.setrlimit(resource.RLIMIT_AS, (4 << 30, 4 << 30))\n"
            "from harness import common, axmesh\n"
            "dassh = common.import_dassh()\n"
            "try:\n"
            "    inp = dassh.DASSH_Input(%r)\n"
            "    r = dassh.Reactor(inp, path=%r, write_output=False)\n"
            "    print('TRACE' + json.dumps(axmesh.reactor_trace(\n"
            "        r, %r, truth=%r, user=%r)))\n"
            "except SystemExit:\n"
            "    print('REJECTED')\n"
            "except MemoryError:\n"
            "    print('HANG')\n"
        ) % (str(common.VERIF), path, str(d), label,
             axmesh.truth_boundaries(case),
             case.get('setup', {}).get('axial_mesh_size'))
        env = dict(os.environ, DASSH_REPO=str(common.REPO))
        try:
            p = subprocess.run([sys.executable, '-c', code], text=True,
                               capture_output=True, timeout=45, env=env)
            out = p.stdout
        except subprocess.TimeoutExpired:
            out = 'HANG'
        for line in out.splitlines():
            if line.startswith('TRACE'):
                return json.loads(line[5:])
        status = 'hang' if 'HANG' in out else (
            'error' if 'REJECTED' in out else 'crash')
        # configuration unknown when construction did not finish: a
        # rejection is acceptable only if the step really floors to zero;
        # the generator marks which cases are expected to be rejected
        exp = case.get('_expect', 'done')
        ev = [{'e': 'Select', 'step': [0, 0] if exp == 'error' else [1, 0]},
              {'e': 'End', 'status': status}]
        return {'label': label,
                'cfg': {'B': [[0, 0], [1, 0]],
                        'limit': [0, 500000] if exp == 'error' else [8000, 0],
                        'user': [0, 0], 'cap': [10000, 0]},
                'ev': ev, 'note': (p.stderr[-300:] if 'p' in dir() else '')}
    finally:
        common.cleanup(d)


def reactor_cases(rng, tier):
    out = []
    sl = dict(scenarios.single_lattice(rng, tier))
    for k in ('rod2-adiabatic', 'rod3-flowgap', 'multi-simple',
              'multi-6node', 'rod2-convapprox', 'rod3-dd-flowbyp',
              'rod2-3duct', 'opt-dd-unequal-walls-regions'):
        out.append((k, sl[k]))
    # requested planes, close to boundaries and to each other
    c = copy.deepcopy(sl['rod3-flowgap'])
    c['setup']['axial_plane'] = [0.2002, 0.3000001, 0.30000000000004, 0.5,
                                 0.50015, 0.35]
    out.append(('req-planes', c))
    # requested planes outside the core (two in a row below, two in a row
    # above) are ignored: the input still builds, on the planes inside
    c = copy.deepcopy(sl['rod3-flowgap'])
    c['setup']['axial_plane'] = [-0.2, -0.1, 0.2002, 0.35, 0.9, 1.4]
    out.append(('req-planes-outside-the-core', c))
    for name, dz in (('user-above', 0.02), ('user-below', 0.0013),
                     ('user-odd', 0.00371)):
        c = copy.deepcopy(sl['multi-simple'])
        c['setup']['axial_mesh_size'] = dz
        out.append((name, c))
    c = make_core(rng, {'a1': bundle_type(2)}, [(1, 1, 'a1')],
                  [flow_for(bundle_type(2))], gap_model='none',
                  cell_bounds=[0.0, 0.1, 0.1000003, 0.33333333333, 0.6],
                  power_order=1)
    out.append(('near-coincident-power-cells', c))
    # an un-rodded region with a small hydraulic diameter limits the step,
    # not the (coarse) pin bundle
    from harness.scenarios import add_regions
    tb = add_regions(bundle_type(2, P=0.024, D=0.020, Dw=0.0035, Pw=0.3),
                     0.6, lower=dict(model='simple', vf_coolant=0.3,
                                     hydraulic_diameter=0.001),
                     upper=dict(model='6node', vf_coolant=0.4,
                                hydraulic_diameter=0.0015))
    out.append(('region-limits-step', make_core(
        rng, {'a1': tb}, [(1, 1, 'a1')], [0.4], gap_model='no_flow',
        bypass_fraction=0.02)))
    cl = scenarios.core_lattice(rng, tier)
    out.append(cl[0])
    out.append(cl[1])     # every assembly has its own power mesh
    # one type, one flow rate, different powers, temperature-dependent
    # coolant: the requirement differs from assembly to assembly
    from harness.scenarios import fitted_type, layout_positions
    A1 = fitted_type(2, 0.060)
    lay = [(r_, p_, 'A') for (r_, p_) in layout_positions(7)]
    npin = cases.n_pins(2)
    out.append(('one-type-one-flow-hot-first', make_core(
        rng, {'A': A1}, lay, [flow_for(A1, 0.05)] * 7, gap_model='no_flow',
        coolant='sodium', bypass_fraction=0.0,
        asm_power=[2.0e4 * npin * f for f in (2.0, .1, .1, .1, .1, .1, .1)])))
    # inter-assembly flow so small that the requirement floors to zero
    c = copy.deepcopy(cl[3][1])
    c['bypass_fraction'] = 2e-7
    c['_expect'] = 'error'
    out.append(('gap-flow-floors-to-zero', c))
    return out


def run(tier, res, replay=None):
    rng = random.Random(common.seed() * 7919 + 5)
    r = common.tlc_model('MC_AxialMesh', 'MC_AxialMesh.cfg', timeout=1800)
    common.require_ok(r, 'axial mesh design')
    res.add_tlc(r, 'design: all boundary subsets x limits x requests; '
                   'safety invariants + Termination (liveness)')
    r = common.tlc_model('MC_AxialMesh', 'Neg_AxialMesh_Hang.cfg',
                         timeout=1800)
    common.require_violation(r, 'Termination')
    res.add_tlc(r, 'negative: marching with a zero step never terminates')
    # ---- (a) replay of the instance lattice
    insts = []
    if tier == 'quick':
        insts += axmesh.lattice(6, 10)
        insts += axmesh.lattice(5, 10, noise=1e-7)[::3]
        insts += axmesh.lattice(5, 10, noise=1e-13)[::3]
    else:
        insts += axmesh.lattice(8, 10)
        insts += axmesh.lattice(6, 10, noise=1e-7)
        insts += axmesh.lattice(6, 10, noise=1e-13)
        insts += axmesh.lattice(6, 10, noise=-3e-13)
    n = common.NCPU
    chunks = [(i, insts[i::n]) for i in range(n)]
    with ProcessPoolExecutor(max_workers=n) as ex:
        traces = [t for ch in ex.map(replay_chunk, chunks) for t in ch]
        traces += list(ex.map(build_one, reactor_cases(rng, tier)))
    shards = [traces[i::n] for i in range(n)]

    def val(item):
        i, sh = item
        return common.tlc_traces('Trace_AxialMesh', 'Trace_AxialMesh.cfg',
                                 [{'cfg': t['cfg'], 'ev': t['ev']} for t in sh],
                                 tag=f'ax{i}')
    with ThreadPoolExecutor(max_workers=n) as ex:
        outs = list(ex.map(val, enumerate(shards)))
    seen = set()
    for sh, out in zip(shards, outs):
        res.add_tlc(dict(out, ok=True), 'trace validation of mesh construction')
        res.add_traces(len(sh))
        for tid, (v, l, info) in out['verdicts'].items():
            tr = sh[tid - 1]
            res.add_eval()
            res.distinct(json.dumps(tr['cfg'], sort_keys=True),
                         len(tr['ev']) > 2)
            if v != 'accept':
                clauses = sorted(c.strip('" ') for c in
                                 info.strip('{}').split(',') if c.strip())
                kind = 'reactor' if not tr['label'].startswith('replay') \
                    else 'replay'
                for cl in clauses:
                    key = (f'{kind}={tr["label"] if kind == "reactor" else "lattice"}'
                           f';clause={cl}')
                    if key in seen and kind == 'replay':
                        continue
                    seen.add(key)
                    res.violation(key, f'mesh construction rejected at event '
                                  f'{l}: {clauses}',
                                  {'label': tr['label'], 'cfg': tr['cfg'],
                                   'events': tr['ev'][:40]})
        common.cleanup(out['dir'])
    res.sample(traces[len(traces) // 3])
    res.sample({k: v for k, v in traces[-2].items() if k != 'ev'})
    res.rule('one case = one (boundary set, stability limit, requested step) '
             'instance replayed through the real mesh methods, or one full '
             'Reactor construction; every Select / Plane step is a checked '
             'obligation; distinct by configuration; non-trivial if at least '
             'one plane is produced')
    res.cov['exhaustive'] = True
    res.trusted('harness/axmesh.py (stand-in object, picometre limbs)',
                'spec/AxialMesh.tla')
    res.assume('instances on a 1.25 mm tick (the 1 cm cap is 8 ticks) plus '
               'decimal noise of 1e-7 / 1e-13 m; positions exact in pm')


META = {
    'text': 'TLC explores the mesh-construction design exhaustively in small '
            'scope (107k states; safety + liveness, zero-step variant must '
            'violate Termination) and validates, step by step, thousands of '
            'replays of the same instance lattice through the real Reactor '
            'mesh methods plus full Reactor constructions (near-coincident '
            'boundaries, requested planes, user steps, vanishing gap flow).',
    'note': 'Replay uses a stand-in object carrying only the attributes '
            'the three real methods read. Full constructions run in a '
            'subprocess with a 90 s / 4 GB limit (hang => violation).',
    'technique': 'TLA+ mesh spec: TLC exhaustive small-scope model + '
                 'liveness + TLC validation of replayed and recorded '
                 'constructions',
    'design_ref': 'DESIGN.md section 4, C05',
}

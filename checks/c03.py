"""C03 - power deposited over the sweep equals the power assigned.

Design: MC_Power (every plane set of a power cell x every bundle cut x small
shapes): the whole-cell renormalisation the solver uses is exact iff the
bundle bounds are aligned with the power cell or the shape is flat; the
split scheme is always exact (Neg_Power_WholeCell must fail).
Code: recorded sweeps over power files (1-4 cells, order 0-2, per-pin /
duct / coolant shapes, zero cells, missing components), normalisation and
scaling options, several step sizes, bundle bounds aligned and misaligned
with the power mesh, low-fidelity assemblies; TLC validates per-step
bookkeeping, delivered = assigned = independent integral of the CSV, and
assembly totals = requested core power x scaling.  Scaling pairs: power x s
=> every temperature rise x s (Trace_Pair).
"""
import copy
import random

import numpy as np

from harness import common, cases, scenarios, marchcheck, fields
from harness.marchcheck import C03_CLAUSES
from harness.scenarios import bundle_type, add_regions, make_core, flow_for

LEVEL = 'model_checking'


def power_lattice(rng, tier):
    out = []

    def one(label, t, **kw):
        gm = kw.pop('gap_model', 'none')
        fl = kw.pop('flow', flow_for(t))
        post = kw.pop('post', None)
        c = make_core(rng, {'a1': t}, [(1, 1, 'a1')], [fl], gap_model=gm,
                      bypass_fraction=(0.05 if gm != 'none' else 0.0), **kw)
        if post:
            post(c)
        out.append((label, c))

    L = 0.6
    one('p-1cell-flat', bundle_type(2), ncell=1, power_order=0)
    one('p-3cell-quad', bundle_type(2), ncell=3, power_order=2)
    one('p-4cell-lin-gap', bundle_type(3), ncell=4, power_order=1,
        gap_model='flow')
    one('p-zero-cell', bundle_type(2), ncell=3, power_order=1,
        zero_cells=(1,))
    one('p-pins-only', bundle_type(2), ncell=2, comps=('pins',))
    one('p-duct-cool-only', bundle_type(2), ncell=2, comps=('duct', 'cool'))
    # every other subset of components, with curved shapes (a renormalisation
    # that loses a component, or is skipped, shows only then)
    one('p-pins-duct-quad', bundle_type(2), ncell=3, power_order=2,
        comps=('pins', 'duct'))
    one('p-pins-cool-quad', bundle_type(2), ncell=2, power_order=2,
        comps=('pins', 'cool'))
    one('p-duct-only-quad', bundle_type(2), ncell=3, power_order=2,
        comps=('duct',))
    one('p-cool-only-quad', bundle_type(2), ncell=2, power_order=2,
        comps=('cool',))
    one('p-duct-cool-quad', bundle_type(2), power_order=2,
        comps=('duct', 'cool'), cell_bounds=[0.0, 0.07, 0.31, 0.6])
    one('p-uneven-cells', bundle_type(2), power_order=2,
        cell_bounds=[0.0, 0.07, 0.31, 0.6])

    def norm(tp=None, sf=None):
        def f(c):
            if tp is not None:
                c['total_power'] = tp
            if sf is not None:
                c['power_scaling_factor'] = sf
            if (sf is not None and sf < 1e-6) or (tp is not None
                                                  and 0 < tp < 1.0):
                c['_power_scale'] = True
        return f
    one('p-normalised', bundle_type(2), ncell=2, post=norm(tp=3.3e5))
    one('p-scaled', bundle_type(2), ncell=2, post=norm(sf=0.5))
    one('p-norm-and-scaled', bundle_type(2), ncell=2,
        post=norm(tp=2.5e5, sf=1.75))
    one('p-norm-zero', bundle_type(2), ncell=2, post=norm(tp=0.0))
    # very small absolute powers: delivery is linear in the scale, nothing
    # is dropped below some absolute W/m (seed C03-14)
    one('p-scaled-tiny', bundle_type(2), ncell=2, post=norm(sf=1e-10))
    one('p-scaled-tinier', bundle_type(2), ncell=3, power_order=2,
        post=norm(sf=3e-13))
    one('p-norm-tiny', bundle_type(2), ncell=2, post=norm(tp=2.5e-6))
    for name, dz in (('p-dz-coarse', 0.009), ('p-dz-odd', 0.00371),
                     ('p-dz-fine', 0.0011)):
        one(name, bundle_type(2), ncell=3, power_order=2,
            setup={'axial_mesh_size': dz})
    # regions aligned with the power mesh
    t = add_regions(bundle_type(3), L,
                    lower=dict(model='simple', vf_coolant=0.3),
                    upper=dict(model='simple', vf_coolant=0.4),
                    rods=[0.15, 0.45])
    one('p-regions-aligned', t, gap_model='flow', power_order=2,
        cell_bounds=[0.0, 0.15, 0.3, 0.45, 0.6])
    one('p-regions-aligned-flat', copy.deepcopy(t), gap_model='flow',
        power_order=0, ncell=2)
    # bundle bounds strictly inside power cells with a non-flat shape
    one('p-regions-misaligned', copy.deepcopy(t), gap_model='flow',
        power_order=1, ncell=2)
    # two planes closer together than one step, with different linear
    # power on the two sides of the lower one: a requested plane just above
    # a power-cell boundary, a power cell thinner than the step, the top of
    # the bundle just above a power-cell boundary
    one('p-plane-just-above-cell-bound', bundle_type(2), power_order=1,
        cell_bounds=[0.0, 0.3, 0.6],
        setup={'axial_plane': [0.3012, 0.1007]})
    one('p-thin-cell', bundle_type(2), power_order=1,
        cell_bounds=[0.0, 0.3, 0.3011, 0.6], zero_cells=(1,))
    tt = add_regions(bundle_type(2), L,
                     lower=dict(model='simple', vf_coolant=0.3),
                     upper=dict(model='simple', vf_coolant=0.35),
                     rods=[0.15, 0.4513])
    one('p-bundle-top-just-above-cell-bound', tt, gap_model='flow',
        power_order=1, cell_bounds=[0.0, 0.15, 0.3, 0.45, 0.6])
    one('p-lowfi', bundle_type(3, use_low_fidelity_model=True,
                               low_fidelity_model='simple'),
        gap_model='flow', ncell=3, power_order=2)
    # cores
    cl = scenarios.core_lattice(rng, tier)
    c = copy.deepcopy(cl[0][1])
    c['total_power'] = 1.1e6
    c['power_scaling_factor'] = 0.8
    out.append(('p-core7-norm-scaled', c))
    # every assembly with its own power mesh and curved shapes: each
    # assembly's cell boundaries must be planes of the common axial mesh
    from harness.scenarios import fitted_type, layout_positions
    A, B = fitted_type(2, 0.060), fitted_type(3, 0.060)
    p7 = layout_positions(7)
    lay = [(r_, p_, 'B' if i in (0, 3) else 'A')
           for i, (r_, p_) in enumerate(p7)]
    out.append(('p-core7-own-meshes', make_core(
        rng, {'A': A, 'B': B}, lay,
        [flow_for({'A': A, 'B': B}[n], 0.12) for (_, _, n) in lay],
        gap_model='flow', bypass_fraction=0.03, ncell=3, power_order=2,
        own_cells=True)))
    # several time points, one power file each: the model built for time
    # point k deposits the power of ITS file
    t3 = add_regions(bundle_type(2), L,
                     lower=dict(model='simple', vf_coolant=0.3),
                     upper=dict(model='simple', vf_coolant=0.4))
    base = make_core(rng, {'a1': t3}, [(1, 1, 'a1')], [flow_for(t3)],
                     gap_model='none', ncell=2, power_order=1)
    pws = [base['power']]
    for k in range(2):
        other = make_core(rng, {'a1': t3}, [(1, 1, 'a1')], [flow_for(t3)],
                          gap_model='none', ncell=3 - k, power_order=2 - k)
        pws.append(other['power'])
    for k in range(3):
        c = copy.deepcopy(base)
        c['powers'] = copy.deepcopy(pws)
        c['_tp'] = k
        if k == 2:
            c['power_scaling_factor'] = 1.6
        out.append((f'p-timepoint-{k + 1}-of-3', c))
    if tier == 'thorough':
        out += [('p-' + l, cc) for l, cc in cl[1:]]
        for i in range(6):
            n = rng.choice([2, 3, 4])
            one(f'p-rand{i}', bundle_type(n), ncell=rng.choice([1, 2, 3, 4]),
                power_order=rng.choice([0, 1, 2]),
                setup={'axial_mesh_size': rng.uniform(0.001, 0.01)})
    return out


def scale_pairs(dassh, rng, res, tier):
    """power x s  =>  temperature rises x s (constant properties)."""
    traces = []
    d = common.workdir('c03pair')
    try:
        t = bundle_type(3, nd=2)
        base = make_core(rng, {'a1': t}, [(1, 1, 'a1')], [flow_for(t)],
                         gap_model='flow', bypass_fraction=0.05, ncell=2,
                         power_order=1)
        # constant-property PROBLEM: the duct steel must be constant too
        base['materials']['steel_fixed'] = {
            'thermal_conductivity': 21.0, 'heat_capacity': 550.0,
            'density': 7800.0}
        base['types']['a1']['duct_material'] = 'steel_fixed'
        for (num, den) in ((2, 1), (1, 2)):
            ev = []
            try:
                r1, s1 = fields.run_fields(dassh, base, str(d / 'a'))
                c2 = copy.deepcopy(base)
                c2['power_scaling_factor'] = num / den
                r2, s2 = fields.run_fields(dassh, c2, str(d / 'b'))
                Tin = float(r1.inlet_temp)
                scale = 4 * max(num, den) * max(
                    float(np.max(s['asm'][0]['cool'])) - Tin
                    for s in s1.values())
                for k in sorted(s1):
                    for f in ('cool', 'duct', 'byp'):
                        a = s1[k]['asm'][0][f] - Tin
                        b = s2[k]['asm'][0][f] - Tin
                        ev.append({'e': 'Cmp', 'what': 'RiseScalesWithPower',
                                   'field': f, 'k': k, 'num': num, 'den': den,
                                   'tol': 2 * (num + den),
                                   'a': fields.qvec(a, scale),
                                   'b': fields.qvec(b, scale)})
                    ev.append({'e': 'Cmp', 'what': 'RiseScalesWithPower',
                               'field': 'gap', 'k': k, 'num': num, 'den': den,
                               'tol': 2 * (num + den),
                               'a': fields.qvec(s1[k]['gap'] - Tin, scale),
                               'b': fields.qvec(s2[k]['gap'] - Tin, scale)})
            except BaseException as e:
                ev.append({'e': 'Crash', 'exc': type(e).__name__})
            traces.append({'label': f'scale-{num}-{den}',
                           'cfg': {'rel': 'scale'}, 'ev': ev})
    finally:
        common.cleanup(d)
    out = common.tlc_traces('Trace_Pair', 'Trace_Pair.cfg',
                            [{'cfg': t['cfg'], 'ev': t['ev']} for t in traces],
                            tag='c03pair')
    res.add_tlc(dict(out, ok=True), 'trace validation of scaling pairs')
    res.add_traces(len(traces))
    for tid, (v, l, info) in out['verdicts'].items():
        tr = traces[tid - 1]
        res.add_eval()
        res.distinct(tr['label'])
        if v != 'accept':
            res.violation(f'pair={tr["label"]};clause=RiseScalesWithPower',
                          f'scaled-power pair rejected at event {l}: {info}',
                          {'pair': tr['label'], 'event': tr['ev'][l - 1]
                           if 0 < l <= len(tr['ev']) else None})
    common.cleanup(out['dir'])


def run(tier, res, replay=None):
    dassh = common.import_dassh()
    rng = random.Random(common.seed() * 7919 + 3)
    r = common.tlc_model('MC_Power', 'MC_Power.cfg', timeout=600)
    common.require_ok(r, 'power design')
    res.add_tlc(r, 'design: whole-cell renormalisation exact if aligned or flat')
    r = common.tlc_model('MC_Power', 'MC_Power_Split.cfg', timeout=600)
    common.require_ok(r, 'power design split')
    res.add_tlc(r, 'design: split renormalisation always exact')
    r = common.tlc_model('MC_Power', 'Neg_Power_WholeCell.cfg', timeout=600)
    common.require_violation(r)
    res.add_tlc(r, 'negative: whole-cell scheme is not exact for misaligned '
                   'bundle bounds')
    lab = power_lattice(rng, tier)
    results = marchcheck.run_cases(lab, res, C03_CLAUSES)
    scale_pairs(dassh, rng, res, tier)
    tr0 = results[0][0]
    res.sample({'case': tr0['label'], 'finish': tr0['ev'][-1]})
    res.sample({'cases': [t[0]['label'] for t in results]})
    res.rule('one case = one recorded sweep of a power-file / option / '
             'step-size scenario; PowerStep bookkeeping on every plane and '
             'the Finish totals are checked obligations; non-trivial if '
             'power is deposited; distinct by label')
    res.trusted('harness/cases.py cell_integral (independent integration of '
                'the CSV polynomials)', 'harness/ledger.py', 'spec/March.tla',
                'spec/Power.tla')
    res.assume('user-power (CSV) inputs only: binary-flux power needs the '
               'VARPOW executable and flux files that are empty in this '
               'tree', 'totals compared at 2^-30 of 4x total power')


META = {
    'text': 'TLC model-checks the renormalisation design (3264 instances of '
            'planes x bundle cuts x shapes; whole-cell scheme exact iff '
            'aligned or flat, negative config must fail) and validates '
            'recorded real sweeps: per-step power bookkeeping, delivered = '
            'assigned = independent CSV integral, totals = requested x '
            'scaling, and power-scaling pairs on every temperature field.',
    'note': 'User-power inputs only (binary-flux VARPOW path cannot run '
            'here). Independent integral from harness/cases.py.',
    'technique': 'TLA+ power-delivery model checked by TLC + TLC trace '
                 'validation of recorded power ledgers and run pairs',
    'design_ref': 'DESIGN.md section 4, C03',
}

"""C14 - pressure drop is non-negative, additive and step-size independent.

Design: MC_Track (all plane sequences on a small grid x all grid positions,
incl. grids on planes): the half-open step interval charges every grid
exactly once; the open interval (Neg_Track_Open) must fail.
Code: recorded sweeps with spacer grids at generic, plane-coincident,
dyadic, boundary-coincident and unsorted positions, gravity on/off,
multi-region and double-duct assemblies, several step sizes: per step the
friction / gravity increments equal their closed forms, the grid loss equals
(number of grids in (zlo, zhi]) x loss, totals are additive; at the end
every grid inside the bundle was charged exactly once and the total equals
the closed form.  Step-size independence on run pairs (Trace_Pair).
"""
import copy
import random

from harness import common, scenarios, trackcheck, cases
from harness.trackcheck import C14_CLAUSES
from harness.scenarios import bundle_type, add_regions, make_core, flow_for

LEVEL = 'model_checking'


def grid_cases(rng, tier):
    out = []

    def one(label, t, **kw):
        gm = kw.pop('gap_model', 'none')
        c = make_core(rng, {'a1': t}, [(1, 1, 'a1')], [flow_for(t)],
                      gap_model=gm,
                      bypass_fraction=(0.05 if gm != 'none' else 0.0), **kw)
        out.append((label, c))
    L = 0.6
    g = {'loss_coeff': 1.25}
    one('grid-generic', bundle_type(2, SpacerGrid=dict(
        g, axial_positions=[0.1013, 0.2507, 0.4711])),
        setup={'include_gravity_head_loss': True})
    # dyadic step, grids on planes
    one('grid-on-planes', bundle_type(2, SpacerGrid=dict(
        g, axial_positions=[0.125, 0.3, 0.5])), L=0.75,
        setup={'axial_mesh_size': 0.0078125})
    one('grid-decimal-on-planes', bundle_type(2, SpacerGrid=dict(
        g, axial_positions=[0.1, 0.3, 0.45])),
        setup={'axial_mesh_size': 0.005, 'include_gravity_head_loss': True})
    one('grid-unsorted', bundle_type(2, SpacerGrid=dict(
        g, axial_positions=[0.4711, 0.1013, 0.2507])))
    one('grid-two-in-one-step', bundle_type(2, SpacerGrid=dict(
        g, axial_positions=[0.2001, 0.2003, 0.41])),
        setup={'axial_mesh_size': 0.008})
    one('grid-cdd-uncapped', bundle_type(3, SpacerGrid=dict(
        corr='CDD', axial_positions=[0.12, 0.33], solidity=0.3)),
        gap_model='flow')
    one('grid-cdd-capped', bundle_type(2, SpacerGrid=dict(
        corr='CDD', axial_positions=[0.2, 0.41], solidity=0.8)))
    one('grid-reh', bundle_type(3, SpacerGrid=dict(
        corr='REH', axial_positions=[0.12, 0.33])), gap_model='flow')
    t = add_regions(bundle_type(3, SpacerGrid=dict(
        g, axial_positions=[0.15, 0.2, 0.45])), L,
        lower=dict(model='simple', vf_coolant=0.3),
        upper=dict(model='6node', vf_coolant=0.4), rods=[0.15, 0.45])
    one('grid-region-bounds', t, gap_model='flow',
        setup={'include_gravity_head_loss': True})
    # the same with the per-step pressure-drop dump: every dumped row shows
    # the ledger of all regions swept so far (seed C14-14)
    one('grid-region-bounds-dump', copy.deepcopy(t), gap_model='flow',
        setup={'include_gravity_head_loss': True,
               'Dump': {'pressure_drop': True}})
    one('nogrid-dd-gravity', bundle_type(3, nd=2), gap_model='flow',
        setup={'include_gravity_head_loss': True})
    one('nogrid-lowfi', bundle_type(3, use_low_fidelity_model=True),
        gap_model='flow', setup={'include_gravity_head_loss': True})
    # one type at several positions with different flows, un-rodded regions
    # of both kinds: tallies are per assembly, not per type
    from harness.scenarios import fitted_type, layout_positions
    T1 = add_regions(fitted_type(2, 0.060, SpacerGrid=dict(
        g, axial_positions=[0.25, 0.35])), L,
        lower=dict(model='simple', vf_coolant=0.3),
        upper=dict(model='6node', vf_coolant=0.4))
    p4 = layout_positions(4)
    fb = flow_for(T1, 0.12)
    out.append(('core-one-type-regions', make_core(
        rng, {'T': T1}, [(r_, p_, 'T') for (r_, p_) in p4],
        [fb, 0.7 * fb, 0.45 * fb, 0.85 * fb], gap_model='flow',
        bypass_fraction=0.03,
        setup={'include_gravity_head_loss': True})))
    from harness import scenarios as _sc
    _sl = dict(_sc.single_lattice(rng, 'quick'))
    for k in ('opt-dd-regions-adiabatic-gravity', 'opt-uctd-grid-regions',
              'opt-se2geo', 'opt-3duct-convapprox', 'opt-five-regions',
              'opt-only-upper-region', 'opt-bare-kc', 'opt-eng-se2-mit'):
        out.append((k, _sl[k]))
    # another boundary less than one step above an interface between two
    # un-rodded regions (the step must still land on the interface)
    c6 = copy.deepcopy(_sl['opt-five-regions'])
    c6['setup']['axial_plane'] = [0.5512, 0.0811, 0.2009]
    out.append(('five-regions-planes-just-above-interfaces', c6))
    # un-rodded regions in laminar flow (low flow rate)
    tl = add_regions(bundle_type(2), L,
                     lower=dict(model='simple', vf_coolant=0.3,
                                hydraulic_diameter=0.004),
                     upper=dict(model='6node', vf_coolant=0.4,
                                hydraulic_diameter=0.005))
    out.append(('regions-laminar', make_core(
        rng, {'a1': tl}, [(1, 1, 'a1')], [0.012], gap_model='none',
        setup={'include_gravity_head_loss': True})))
    # the axial regions listed top-down in the input (their order in the
    # file says nothing about their elevation)
    c5 = copy.deepcopy(_sl['opt-five-regions'])
    ar = c5['types']['a1']['AxialRegion']
    c5['types']['a1']['AxialRegion'] = {k: ar[k] for k in reversed(list(ar))}
    out.append(('five-regions-listed-top-down', c5))
    if tier == 'thorough':
        for i in range(8):
            n = rng.choice([2, 3])
            pos = sorted(round(rng.uniform(0.02, 0.58), rng.choice([2, 3, 4]))
                         for _ in range(rng.choice([1, 2, 4])))
            one(f'grid-rand{i}', bundle_type(n, SpacerGrid=dict(
                g, axial_positions=pos)),
                setup={'axial_mesh_size': rng.choice([0.01, 0.005, 0.0025,
                                                      0.00371])})
        out += [('core-' + l, c) for l, c in scenarios.core_lattice(rng, tier)[:3]]
    return out


def step_pairs(res, results):
    """same problem on different plane sets => same pressure drop."""
    by = {tr['label']: tr for tr, v, l, cl in results}
    ev = []
    for a, b in (('pair-dz1', 'pair-dz2'), ('pair-dz1', 'pair-dz3')):
        if a in by and b in by and by[a]['meta']['planes'] and by[b]['meta']['planes']:
            pa, pb = by[a]['meta']['dp'][0], by[b]['meta']['dp'][0]
            sc = 4 * max(abs(pa), abs(pb), 1e-9)
            ev.append({'e': 'Cmp', 'what': 'PressureDropStepIndependent',
                       'num': 1, 'den': 1, 'tol': 8,
                       'a': [common.q(pa, sc)], 'b': [common.q(pb, sc)],
                       'pair': [a, b], 'values': [pa, pb]})
    if not ev:
        return
    out = common.tlc_traces('Trace_Pair', 'Trace_Pair.cfg',
                            [{'cfg': {'rel': 'identity'}, 'ev': ev}],
                            tag='c14pair')
    res.add_tlc(dict(out, ok=True), 'trace validation of step-size pairs')
    res.add_traces(1)
    v, l, info = out['verdicts'][1]
    if v != 'accept':
        res.violation('pair=step-size;clause=PressureDropStepIndependent',
                      f'pressure drop depends on the step size: {ev[l - 1]["values"]}',
                      {'event': ev[l - 1]})
    common.cleanup(out['dir'])


def run(tier, res, replay=None):
    rng = random.Random(common.seed() * 7919 + 14)
    r = common.tlc_model('MC_Track', 'MC_Track.cfg', timeout=900)
    common.require_ok(r, 'track design')
    res.add_tlc(r, 'design: half-open interval charges every grid once; '
                   'peak fold')
    r = common.tlc_model('MC_Track', 'Neg_Track_Open.cfg', timeout=900)
    common.require_violation(r, 'InvGridOnce')
    res.add_tlc(r, 'negative: open interval misses grids on planes')
    lab = grid_cases(rng, tier)
    # step-size pairs: grids off the planes of all three meshes
    t = bundle_type(3, SpacerGrid={'loss_coeff': 0.9,
                                   'axial_positions': [0.1507, 0.3301]})
    base = make_core(rng, {'a1': t}, [(1, 1, 'a1')], [flow_for(t)],
                     gap_model='none')
    base['setup']['include_gravity_head_loss'] = True
    for name, dz in (('pair-dz1', 0.004), ('pair-dz2', 0.002),
                     ('pair-dz3', 0.00390625)):
        c = copy.deepcopy(base)
        c['setup']['axial_mesh_size'] = dz
        lab.append((name, c))
    results = trackcheck.run(lab, res, C14_CLAUSES, opts={'dptable': True, 'dpdump': True})
    step_pairs(res, results)
    tr0 = results[0][0]
    res.sample({'case': tr0['label'], 'cfg': tr0['cfg'],
                'event': tr0['ev'][0]})
    res.sample({'cases': [t_[0]['label'] for t_ in results]})
    res.rule('one case = one recorded sweep (grid positions x step size x '
             'regions x gravity); every Track event is a checked obligation '
             '(closed forms, grid hits, additivity); distinct by label')
    res.trusted('harness/trackobs.py', 'spec/AsmTrack.tla')
    res.assume('constant-property coolant for the closed forms; planes and '
               'grid positions compared exactly in picometres')


META = {
    'text': 'TLC model-checks the grid-counting fold over all small plane '
            'sequences and grid positions (open-interval variant must fail) '
            'and validates every step of recorded real sweeps: non-negative '
            'parts, closed-form friction / gravity increments, one loss per '
            'grid in (zlo, zhi], additivity over parts and regions, every '
            'grid charged exactly once, total = closed form, the printed table '
            'and the per-step dump file show the ledger, and step-size '
            'independence on run pairs.',
    'note': 'Closed forms use the solver\'s own friction factor and velocity '
            '(static, bundle-average temperature). Trusted: '
            'harness/trackobs.py.',
    'technique': 'TLA+ accumulator spec: TLC design model + TLC trace '
                 'validation of per-step pressure ledgers and run pairs',
    'design_ref': 'DESIGN.md section 4, C14',
}

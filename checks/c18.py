"""C18 - impossible or inconsistent inputs are rejected before any
calculation; accepted inputs set up and sweep without unhandled exception.

Design: InputGuard.tla, part 1: validity of an input from integer facts, one
predicate per class of the property (pins fit, wire against pin gap, clad
against radius, positive dimensions, duct against pitch and walls, equal
outer ducts, axial regions: inside the core, no overlap, exactly one rod
bundle interval, boundary conditions, names, power profile); hand-made
examples are checked by TLC.  Part 2: the guard pipeline (schema, semantic
checks, set-up, sweep) with the stage that stops each class; TLC proves
NoComputeOnInvalid, RejectedBeforeCompute, AcceptedRuns, InvalidStopped and
refutes them for a pipeline without the overlap guard (the pre-fix reader).
Code: three valid generated bases (single assembly with regions, double
duct with pins / spacer grid / 6-node region, 7-assembly core of two types)
receive (a) targeted single faults of every class of the property with
random magnitudes, (b) every numeric key of the case set to zero, negated
and multiplied by 1000.  Each input is written, read, set up and swept by
the real code under a watchdog; TLC judges the facts of the input as
written with Reasons() and checks the observed outcome (Trace_Guard).
"""
import random
from concurrent.futures import ProcessPoolExecutor, ThreadPoolExecutor

from harness import common, guard

LEVEL = 'model_checking'


def design(res):
    r = common.tlc_model('MC_InputGuard', 'MC_InputGuard.cfg', timeout=900)
    common.require_ok(r, 'input guard model')
    res.add_tlc(r, 'design: every fault class stopped before the sweep; '
                'validity examples')
    r = common.tlc_model('MC_InputGuard', 'Neg_InputGuard_NoOverlapGuard.cfg',
                         timeout=900)
    common.require_violation(r, 'NoComputeOnInvalid')
    res.add_tlc(r, 'negative: no guard for overlapping regions')


def run(tier, res, replay=None):
    rng = random.Random(common.seed() * 7919 + 18)
    design(res)
    items = []
    for base in (guard.base_single, guard.base_rich, guard.base_core,
                 guard.base_adiabatic, guard.base_lowfirst):
        items += [(base.__name__[5:] + '/' + x[0],) + x[1:]
                  for x in guard.targeted(rng, base, tier)]
    items += [('rich/' + x[0],) + x[1:]
              for x in guard.generic(rng, guard.base_rich, tier)]
    if tier == 'thorough':
        items += [('single/' + x[0],) + x[1:]
                  for x in guard.generic(rng, guard.base_single, tier)]
        items += [('core/' + x[0],) + x[1:]
                  for x in guard.generic(rng, guard.base_core, tier)]
    # lines that run past the end of an inner ring of a 19-position core
    items += [('core19/' + x[0],) + x[1:] for x in guard.ring_faults(rng)]
    # valid bases themselves
    for base in (guard.base_single, guard.base_rich, guard.base_core,
                 guard.base_lowfirst):
        for k in range(2):
            c, tn = base(random.Random(rng.randrange(1 << 30)))
            items.append((f'{base.__name__[5:]}/valid#{k}', c, tn, [], {},
                          None))
    # valid inputs of the scenario lattice (every model option at least
    # once): accepted inputs must set up and sweep
    from harness import scenarios
    for lab_, c in scenarios.single_lattice(random.Random(1), 'quick'):
        if lab_.startswith('opt-') or lab_ in ('multi-convfactor',
                                               'lowfi-6node',
                                               'rod3-wirecw-mit',
                                               'rod2-3duct'):
            items.append((f'lattice/{lab_}', c, 'a1', [], {}, None))
    # options that are accepted but not supported must be refused by the
    # reader, not fail later
    c, tn = guard.base_rich(random.Random(2))
    c['types'][tn]['bypass_gap_loss_coeff'] = 2.5
    items.append(('rich/option-bypass-loss-coeff', c, tn, [], {}, None))
    c, tn = guard.base_single(random.Random(2))
    c['types'][tn]['dummy_pin'] = [1, 4]
    items.append(('single/option-dummy-pin', c, tn, [], {}, None))
    tmo = 90 if tier == 'quick' else 300
    jobs = [it + (rng.randrange(1 << 30), tmo) for it in items]
    if replay:
        import json
        rp = json.load(open(replay))
        rp = rp.get('replay', rp)
        jobs = [j for j in jobs if j[0] == rp.get('label')] or jobs
    with ProcessPoolExecutor(max_workers=common.NCPU) as ex:
        traces = list(ex.map(guard.run_input, jobs, chunksize=2))
    nsh = 4
    shards = [traces[i::nsh] for i in range(nsh)]

    def val(item):
        i, sh = item
        return common.tlc_traces('Trace_Guard', 'Trace_Guard.cfg',
                                 [{'ev': t['ev']} for t in sh], tag=f'g{i}')
    with ThreadPoolExecutor(max_workers=nsh) as ex:
        outs = list(ex.map(val, enumerate(shards)))
    tally = {}
    case_of = {j[0]: j for j in jobs}
    for sh, out in zip(shards, outs):
        res.add_tlc(dict(out, ok=True), 'trace validation of input outcomes')
        res.add_traces(len(sh))
        for tid, (v, l, info) in out['verdicts'].items():
            tr = sh[tid - 1]
            o = tr['info']['out']
            tally[o] = tally.get(o, 0) + 1
            res.add_eval()
            res.distinct(tr['label'], True)
            if v != 'accept':
                clauses = set(c.strip('" ') for c in
                              info.strip('{}').split(',') if c.strip())
                if 'FactsShowTheFault' in clauses:
                    raise common.MachineryError(
                        f'fact extraction does not show the intended fault '
                        f'for {tr["label"]}: {tr["ev"][0]}')
                lab = tr['label'].split('#')[0]
                for cl in sorted(clauses):
                    res.violation(
                        f'input={lab};clause={cl}',
                        f'{tr["label"]}: outcome {o} at stage '
                        f'{tr["info"]["stage"]} {tr["info"]["exc"]}: '
                        f'{sorted(clauses)}',
                        {'label': tr['label'], 'event': tr['ev'][0],
                         'info': tr['info'],
                         'case': case_of[tr['label']][1]})
        common.cleanup(out['dir'])
    res.cov['outcomes'] = tally
    res.cov['inputs'] = len(traces)
    if not replay and (tally.get('swept', 0) < 6 or tally.get('rejected', 0) < 50):
        raise common.MachineryError(f'vacuous exploration: {tally}')
    res.sample({'label': traces[0]['label'], 'event': traces[0]['ev'][0]})
    res.rule('one case = one input file (a valid generated base with one '
             'perturbation) taken through the real reader, set-up and sweep; '
             'distinct by label')
    res.trusted('harness/guard.py (perturbations, facts of the input as '
                'written)', 'spec/InputGuard.tla (validity predicates)')
    res.assume('faults are generated with clear margins (no borderline '
               'geometry); watchdog 90 s quick / 300 s thorough, a timeout '
               'inside the sweep counts as slow, not as a hang; user-power '
               'inputs only (binary flux inputs not available)')


META = {
    'text': 'TLC checks the guard pipeline design (each invalid class '
            'stopped before the sweep; a pipeline without the overlap guard '
            'fails) and the validity predicates on examples, then judges '
            'real outcomes: targeted single faults of every class of the '
            'property and every numeric key of a rich input set to zero, '
            'negated and x1000 are read, set up and swept by the real code; '
            'an input whose facts are invalid must be rejected with a '
            'message before any temperature is computed, and no input may '
            'end in an exception or a set-up hang.',
    'note': 'Validity is decided by the TLA+ predicates from the facts of '
            'the input as written; borderline geometry is not generated.',
    'technique': 'TLA+ input-guard spec: TLC design model + TLC trace '
                 'validation of reader/set-up/sweep outcomes on perturbed '
                 'generated inputs',
    'design_ref': 'DESIGN.md section 4, C18',
}

"""C17 - results do not depend on the unit system of the input.

Design: Units.tla holds (1) the exact unit algebra on integer quanta with a
round-trip theorem and anchor values, (2) the reader's conversion pipeline:
one pass per dimension whose unit is not the default, keys visited section by
section, assignment entries position by position; every dimensional value
carries its pending unit factors.  MC_Units proves AllInSI (each converted
exactly once), EveryUnitSystemAccepted and termination for all 90 unit
combinations; three negative variants fail (a forgotten key, entries sharing
one keyword object, a reader that refuses kg/min, kg/hr, lb/s).
Code: generated problems (every dimensional key of the schema present) are
written in every unit combination and parsed by the real reader; each
dimensional leaf of DASSH_Input.data, the value written in the file and the
SI original are quantised and TLC decides, with the algebra of Units.tla,
that it was converted exactly once; all other leaves must be identical to
the SI parse.  The scalar converters of dassh/utils.py are driven there and
back.  Sweeps in several unit systems must reproduce mesh and temperatures.
A guard fails the check if the shipped input template has a numeric key that
the dimension table does not classify.
"""
import copy
import itertools
import random
from concurrent.futures import ProcessPoolExecutor

import numpy as np

from harness import common, cases, scenarios, unitsys, trackcheck
from harness.scenarios import make_core, flow_for, layout_positions
from harness.cases import bundle_type, fitted_type

LEVEL = 'model_checking'
LENS = ['m', 'cm', 'mm', 'in', 'ft']
TEMPS = ['k', 'c', 'f']
MASSES = ['kg', 'lb']
TIMES = ['s', 'min', 'hr']
TNAME = {'k': 'kelvin', 'c': 'celsius', 'f': 'fahrenheit'}


def design(res):
    r = common.tlc_model('Units', 'MC_Units.cfg', timeout=900)
    common.require_ok(r, 'units model')
    res.add_tlc(r, 'design: every value converted exactly once in all 90 '
                'unit combinations; round-trip theorem')
    for cfg, inv, why in (
            ('Neg_Units_Forgets.cfg', 'AllInSI', 'negative: a length key '
             'missing from the length pass'),
            ('Neg_Units_Aliased.cfg', 'AllInSI', 'negative: positions of a '
             'range share one keyword object and are converted per position'),
            ('Neg_Units_Refuses.cfg', 'EveryUnitSystemAccepted',
             'negative: reader refusing a unit whose other component is '
             'already the default')):
        r = common.tlc_model('Units', cfg, timeout=900)
        common.require_violation(r, inv)
        res.add_tlc(r, why)


def problems(rng, tier):
    out = []
    t = scenarios.add_regions(
        bundle_type(3), 0.6,
        lower=dict(model='simple', vf_coolant=0.3, hydraulic_diameter=0.004,
                   epsilon=2e-5),
        upper=dict(model='6node', vf_coolant=0.35, hydraulic_diameter=0.006,
                   epsilon=1e-5))
    t['SpacerGrid'] = {'corr': 'REH', 'axial_positions': [0.3, 0.4],
                       'solidity': 0.2}
    c = make_core(rng, {'a1': t}, [(1, 1, 'a1')], [flow_for(t)],
                  gap_model='flow', bypass_fraction=0.05)
    trackcheck.with_pins(c)
    c['types']['a1']['PinModel']['gap_thickness'] = 5e-5
    c['types']['a1']['PinModel']['gap_material'] = 'clad_fixed'
    c['setup'].update({
        'axial_plane': [0.31, 0.07], 'axial_mesh_size': 0.002,
        'conv_approx_dz_cutoff': 0.01,
        'Dump': {'coolant': True, 'interval': 0.1},
        'AssemblyTables': {'t1': {'type': 'coolant_subchannel',
                                  'assemblies': [1],
                                  'axial_positions': [0.3, 0.45]},
                           # more than one table: every table's heights are
                           # lengths of their own (seed C17-14)
                           't2': {'type': 'duct_mw', 'assemblies': [1],
                                  'axial_positions': [0.2, 0.5, 0.07]},
                           't3': {'type': 'coolant_pin', 'assemblies': [1],
                                  'axial_positions': [0.41]}}})
    out.append(('single-all-keys', c, True))
    c2 = copy.deepcopy(c)
    del c2['setup']['Dump']
    del c2['setup']['axial_mesh_size']
    c2['orificing'] = {'assemblies_to_group': ['a1'], 'n_groups': 1,
                       'value_to_optimize': 'peak coolant temp',
                       'bulk_coolant_temp': 773.15}
    out.append(('single-defaults-orificing', c2, False))
    # core with the three kinds of boundary condition and a position range
    OF = 0.060
    A, B = fitted_type(2, OF), fitted_type(3, OF)
    U = fitted_type(3, OF, use_low_fidelity_model=True,
                    low_fidelity_model='simple')
    names = ['B', 'A', 'A', 'A', 'U', 'A', 'B']
    p7 = layout_positions(7)
    lay = [(r_, p_, names[i]) for i, (r_, p_) in enumerate(p7)]
    flows = [flow_for({'A': A, 'B': B, 'U': U}[n], 0.1) for n in names]
    c3 = make_core(rng, {'A': A, 'B': B, 'U': U}, lay, flows,
                   gap_model='flow', bypass_fraction=0.03)
    asg = []
    for a in c3['assign']:
        asg.append([a[0], a[1], a[2], dict(a[3])])
    # positions 2..4 of ring 2 are one range with one flow rate
    fr = asg[1][3]
    asg = [asg[0], ['A', 2, 1, fr, 3]] + asg[4:]
    asg[2][3] = {'delta_temp': 120.0}
    asg[3][3] = {'outlet_temp': 780.0}
    c3['assign'] = asg
    out.append(('core-bc-kinds-range', c3, True))
    # a core map with empty positions before assigned ones, every kind of
    # boundary condition after the first hole
    occ = [0, 2, 3, 5, 6]
    names5 = ['B', 'A', 'A', 'B', 'A']
    lay5 = [(p7[i][0], p7[i][1], names5[k]) for k, i in enumerate(occ)]
    flows5 = [flow_for({'A': A, 'B': B}[n], 0.1) * (0.8 + 0.1 * k)
              for k, n in enumerate(names5)]
    c5 = make_core(rng, {'A': A, 'B': B}, lay5, flows5, gap_model='flow',
                   bypass_fraction=0.03)
    asg = [[a[0], a[1], a[2], dict(a[3])] for a in c5['assign']]
    asg[2][3] = {'outlet_temp': 770.0}
    asg[4][3] = {'delta_temp': 130.0}
    c5['assign'] = asg
    out.append(('core-holes-bc-kinds', c5, True))
    # temperature-dependent coolant with a property-update tolerance: the
    # reference state of the update rule must not depend on the unit the
    # inlet temperature is written in
    c6 = make_core(rng, {'a1': bundle_type(2)}, [(1, 1, 'a1')],
                   [flow_for(bundle_type(2))], gap_model='flow',
                   bypass_fraction=0.05, coolant='sodium')
    c6['setup']['param_update_tol'] = 0.02
    out.append(('sodium-update-tolerance', c6, True))
    # region bounds that are round in metres and not in feet or inches
    t7 = scenarios.add_regions(bundle_type(2), 1.0,
                               lower=dict(model='simple', vf_coolant=0.3),
                               upper=dict(model='simple', vf_coolant=0.4),
                               rods=[0.25, 0.75])
    c7 = make_core(rng, {'a1': t7}, [(1, 1, 'a1')], [flow_for(t7)],
                   gap_model='flow', bypass_fraction=0.05, L=1.0, ncell=2)
    out.append(('regions-quarter-bounds', c7, True))
    # a double-duct assembly: the geometry summary has rows for the gap
    # between the ducts
    c8 = make_core(rng, {'a1': bundle_type(2, nd=2)}, [(1, 1, 'a1')],
                   [flow_for(bundle_type(2))], gap_model='flow',
                   bypass_fraction=0.05, ncell=2)
    out.append(('double-duct', c8, True))
    if tier == 'thorough':
        c4 = make_core(rng, {'a1': bundle_type(2, nd=2)}, [(1, 1, 'a1')],
                       [flow_for(bundle_type(2))], gap_model='no_flow',
                       coolant='sodium', L=1.2)
        c4['setup'].update({'axial_plane': [1.0]})
        out.append(('dd-sodium-long', c4, True))
    return out


def combos(tier, rng):
    allc = [dict(length=l, temperature=t, mass=m, time=ti)
            for l in LENS for t in TEMPS for m in MASSES for ti in TIMES]
    return allc


def ucfg(cb):
    return {'length': cb['length'], 'temperature': cb['temperature'],
            'mass_flow_rate': f"{cb['mass']}/{cb['time']}"}


def written_units(cb, rng):
    """Spelling variants accepted by the reader."""
    return {'length': rng.choice(unitsys.UNIT_NAMES['length'][cb['length']]),
            'temperature': rng.choice(
                unitsys.UNIT_NAMES['temperature'][cb['temperature']]),
            'mass_flow_rate': f"{cb['mass']}/{cb['time']}"}


def final_state(dassh, r):
    vals = [np.asarray(r.z, float)]
    temps = []
    for a in r.assemblies:
        reg = a.active_region
        temps.append(np.asarray(reg.temp['coolant_int'], float).ravel())
        temps.append(np.asarray(reg.temp['duct_mw'], float).ravel())
    if r.core.model is not None:
        temps.append(np.asarray(r.core.coolant_gap_temp, float).ravel())
    return vals[0], np.concatenate(temps)


def printed_tables(dassh, r, r0, u):
    """The summary table of the run in unit system u against the SI run:
    flow rate, bulk outlet temperature and peak height are the SI values in
    the requested units (harness's own factors).  Returns the largest
    deviations: flow in 1e-6 relative, temperature and height in 1e-3 of
    the printed unit."""
    from harness import tables
    txt = dassh.table.CoolantTempTable().generate(r, None)
    rows = dict(tables._rows(txt))
    tf = tt = tl = 0.0
    if len(rows) < len(r0.assemblies):
        return 2000000000, 2000000000, 2000000000
    for i, a in enumerate(r0.assemblies):
        nums = tables._nums(rows[i + 1])
        wf = unitsys.to_user(float(a.flow_rate), 'F', u)
        wt = unitsys.to_user(float(a.avg_coolant_temp), 'T', u)
        wl = unitsys.to_user(float(a._peak['cool'][1]), 'L', u)
        tf = max(tf, abs(nums[1] - wf) / wf / 1e-6)
        tt = max(tt, abs(nums[2] - wt) / 1e-3)
        tl = max(tl, abs(nums[-1] - wl) / 1e-3)
    # the geometry summary: every length row is the SI row in the requested
    # length unit, every area row in its square (6 digits printed)
    import re as _re
    f = 1.0 / unitsys.LENGTH[u['length']]

    def geo(rx):
        t = dassh.table.GeometrySummaryTable(len(rx.asm_templates))
        rows = {}
        for ln in t.generate(rx).splitlines():
            m = _re.match(r'^\s*(.*?)\s+((?:-?\d\.\d+E[-+]\d+\s*)+)$', ln)
            if m:
                rows[m.group(1)] = [float(x) for x in m.group(2).split()]
        return rows
    g1, g0 = geo(r), geo(r0)
    for name, v0 in g0.items():
        if 'area' in name:
            k = 2
        elif any(w in name for w in ('pitch', 'diameter', 'thickness', 'FTF',
                                     'gap', ' De', '<-->', 'length')):
            k = 1
        else:
            continue
        v1 = g1.get(name)
        if v1 is None or len(v1) != len(v0):
            tl = 2e9
            continue
        for a, b in zip(v1, v0):
            want = b * f ** k
            if want != 0.0:
                # folded into the length figure (relative deviation in
                # 1e-6; six digits are printed)
                rel = abs(a - want) / abs(want)
                if rel > 2e-5:
                    tl = max(tl, rel / 1e-6)
    return (int(min(tf, 2e9)), int(min(tt, 2e9)), int(min(tl, 2e9)))


def parse_job(args):
    """One problem in a list of unit systems: traces (one per system)."""
    label, case, cbs, sweep_idx, seed = args
    dassh = common.import_dassh()
    rng = random.Random(seed)
    d = common.workdir('u17-' + label)
    out = []
    try:
        path = cases.write_case(case, str(d / 'si'))
        inp0 = dassh.DASSH_Input(path)
        si = unitsys.flatten(_norm(inp0.data))
        z0 = t0 = None
        if sweep_idx:
            r0 = dassh.Reactor(inp0, path=str(d / 'si'), write_output=False)
            r0.temperature_sweep()
            z0, t0 = final_state(dassh, r0)
        for ci, cb in enumerate(cbs):
            u = ucfg(cb)
            tr = {'lu': cb['length'], 'tu': cb['temperature'],
                  'mu': cb['mass'], 'tmu': cb['time'],
                  'label': f"{label}/{cb['length']}-{cb['temperature']}-"
                           f"{cb['mass']}/{cb['time']}", 'ev': []}
            cu = unitsys.case_in_units(case, u)
            cu['setup']['Units'] = written_units(cb, rng)
            sub = str(d / f'u{ci}')
            try:
                pth = cases.write_case(cu, sub)
                inp = dassh.DASSH_Input(pth)
            except BaseException as e:
                tr['ev'].append({'e': 'Crash', 'exc': type(e).__name__,
                                 'msg': str(e)[:160]})
                out.append(tr)
                continue
            fl = unitsys.flatten(_norm(inp.data))
            nfree = diff = 0
            first = None
            for p in sorted(set(si) & set(fl)):
                dim = unitsys.dim_of_path(p)
                a, b = si[p], fl[p]
                if dim and isinstance(a, (int, float)) and \
                        isinstance(b, (int, float)) and \
                        not isinstance(a, bool):
                    usr = unitsys.to_user(float(a), dim, u)
                    tr['ev'].append({
                        'e': 'Leaf', 'key': p, 'dim': dim,
                        'usr': unitsys.quant_user(usr, dim, u),
                        'got': unitsys.quant_si(float(b), dim),
                        'si': unitsys.quant_si(float(a), dim)})
                else:
                    nfree += 1
                    if p.startswith('Power/user_power'):
                        continue
                    if a != b and not (isinstance(a, float)
                                       and isinstance(b, float)
                                       and a != a and b != b):
                        diff += 1
                        first = first or [p, repr(a)[:40], repr(b)[:40]]
            missing = sorted(set(si) - set(fl))
            extra = sorted(set(fl) - set(si))
            tr['ev'].append({'e': 'Free', 'n': nfree, 'diff': diff,
                             'first': first or [], 'missing': len(missing),
                             'extra': len(extra),
                             'names': (missing + extra)[:4]})
            if sweep_idx and ci in sweep_idx:
                try:
                    r = dassh.Reactor(inp, path=sub, write_output=False)
                    r.temperature_sweep()
                    z, t = final_state(dassh, r)
                    same = len(z) == len(z0) and len(t) == len(t0)
                    dz = float(np.max(np.abs(z - z0))) if same else 1.0
                    dt = float(np.max(np.abs(t - t0))) if same else 1e3
                    tf, tt, tl = printed_tables(dassh, r, r0, u)
                    tr['ev'].append({'e': 'Run', 'nz': len(z),
                                     'tabflow': tf, 'tabtemp': tt,
                                     'tablen': tl,
                                     'nzsi': len(z0),
                                     'dz': int(min(dz / 1e-12, 2e9)),
                                     'tol': 10,
                                     'dt': int(min(dt / 1e-9, 2e9)),
                                     'ttol': 1000})
                except BaseException as e:
                    tr['ev'].append({'e': 'Crash', 'stage': 'sweep',
                                     'exc': type(e).__name__,
                                     'msg': str(e)[:160]})
            out.append(tr)
        return out
    finally:
        common.cleanup(d)


def _norm(data):
    """Order-free view: requested planes are a set."""
    d = copy.copy(data)
    su = dict(d['Setup'])
    if su.get('axial_plane') is not None:
        su['axial_plane'] = sorted(su['axial_plane'])
    d['Setup'] = su
    return d


def scalar_trace(dassh, rng, n):
    u = dassh.utils
    ev = []
    for _ in range(n):
        kind = rng.choice(['L', 'T', 'F'])
        if kind == 'L':
            unit = rng.choice(['cm', 'mm', 'in', 'ft'])
            x = rng.choice([rng.uniform(1e-4, 5.0), 0.0254, 0.3048, 1.0])
            there = u.get_length_conversion('m', unit)(x)
            back = u.get_length_conversion(unit, 'm')(there)
            ev.append({'e': 'Scalar', 'dim': 'L', 'lu': unit, 'tu': 'k',
                       'mu': 'kg',
                       'x': unitsys.quant_si(x, 'L'),
                       'there': int(round(there / unitsys.LQ[unit])),
                       'back': unitsys.quant_si(back, 'L')})
        elif kind == 'T':
            unit = rng.choice(['c', 'f'])
            x = rng.choice([rng.uniform(250.0, 1500.0), 273.15, 373.15])
            there = u.get_temperature_conversion('k', unit)(x)
            back = u.get_temperature_conversion(unit, 'k')(there)
            ev.append({'e': 'Scalar', 'dim': 'T', 'lu': 'm', 'tu': unit,
                       'mu': 'kg', 'x': unitsys.quant_si(x, 'T'),
                       'there': int(round(there / 1e-5)),
                       'back': unitsys.quant_si(back, 'T')})
        else:
            tm = rng.choice(['min', 'hr'])
            x = rng.uniform(0.01, 40.0)           # kg/s
            there = u.get_time_conversion(tm, 's')(
                u.get_mass_conversion('kg', 'lb')(x))      # lb per tm
            back = u.get_time_conversion('s', tm)(
                u.get_mass_conversion('lb', 'kg')(there))
            ev.append({'e': 'Scalar', 'dim': 'F', 'lu': 'm', 'tu': 'k',
                       'mu': 'lb', 'x': unitsys.quant_si(x, 'F'),
                       'there': int(round(there / unitsys.FQ[tm])),
                       'back': unitsys.quant_si(back, 'F')})
    return {'lu': 'm', 'tu': 'k', 'mu': 'kg', 'tmu': 's',
            'label': 'scalar-converters', 'ev': ev}


def run(tier, res, replay=None):
    rng = random.Random(common.seed() * 7919 + 17)
    design(res)
    dassh = common.import_dassh()
    missing = [k for k in unitsys.template_numeric_keys(dassh)
               if k not in unitsys.DIMS and k[0] != 'Materials/*'
               and k[1] not in ('user_power', 'pin_material',
                                'assemblies_to_group')]
    if missing:
        raise common.MachineryError(
            f'input template has numeric keys without a dimension class: '
            f'{missing}; classify them in harness/unitsys.py')
    probs = problems(rng, tier)
    allc = combos(tier, rng)
    jobs = []
    for pi, (label, case, sweepable) in enumerate(probs):
        # split the 90 combinations over several workers
        nchunk = 6
        for k in range(nchunk):
            cbs = allc[k::nchunk]
            sweep = []
            if sweepable:
                nsw = 1 if tier == 'quick' else 4
                sweep = rng.sample(range(len(cbs)), nsw)
            jobs.append((label, case, cbs, sweep, rng.randrange(1 << 30)))
    with ProcessPoolExecutor(max_workers=common.NCPU) as ex:
        traces = [t for ts in ex.map(parse_job, jobs) for t in ts]
    traces.append(scalar_trace(dassh, rng, 400 if tier == 'quick' else 4000))
    nsh = 8
    shards = [traces[i::nsh] for i in range(nsh)]
    from concurrent.futures import ThreadPoolExecutor

    def val(item):
        i, sh = item
        return common.tlc_traces(
            'Trace_Units', 'Trace_Units.cfg',
            [{k: t[k] for k in ('lu', 'tu', 'mu', 'tmu', 'ev')} for t in sh],
            tag=f'units{i}')
    with ThreadPoolExecutor(max_workers=nsh) as ex:
        outs = list(ex.map(val, enumerate(shards)))
    nleaf = nrun = 0
    keys = set()
    for sh, out in zip(shards, outs):
        res.add_tlc(dict(out, ok=True), 'trace validation of parsed inputs')
        res.add_traces(len(sh))
        for tid, (v, l, info) in out['verdicts'].items():
            tr = sh[tid - 1]
            nl = sum(1 for e in tr['ev'] if e['e'] in ('Leaf', 'Scalar'))
            nleaf += nl
            nrun += sum(1 for e in tr['ev'] if e['e'] == 'Run')
            keys |= {unitsys.dim_of_path(e['key']) and
                     e['key'].split('/')[-1].split('[')[0]
                     for e in tr['ev'] if e['e'] == 'Leaf'}
            res.add_eval(nl)
            res.distinct(tr['label'], nl > 0)
            if v != 'accept':
                clauses = set(c.strip('" ') for c in
                              info.strip('{}').split(',') if c.strip())
                bad = tr['ev'][l - 1] if 0 < l <= len(tr['ev']) else None
                where = (bad or {}).get('key') or (bad or {}).get('e')
                for cl in sorted(clauses):
                    res.violation(
                        f'case={tr["label"]};clause={cl}',
                        f'input in units {tr["lu"]}/{tr["tu"]}/{tr["mu"]}'
                        f'/{tr["tmu"]} rejected at {where}: '
                        f'{sorted(clauses)}',
                        {'label': tr['label'], 'first_failing_event': bad})
        common.cleanup(out['dir'])
    res.cov['dimensional_leaves_checked'] = nleaf
    res.cov['sweep_pairs'] = nrun
    res.cov['dimensional_keys_seen'] = sorted(k for k in keys if k)
    res.sample({'label': traces[0]['label'], 'events': traces[0]['ev'][:3]})
    res.rule('one case = one problem written in one unit combination '
             '(5 lengths x 3 temperatures x 2 masses x 3 times, spelling '
             'variants) and parsed by the real reader; every dimensional '
             'leaf is a checked obligation (evaluations); plus one trace of '
             'scalar there-and-back conversions; distinct by label')
    res.trusted('harness/unitsys.py (writer of inputs in user units with '
                'its own factors, dimension table of the schema)',
                'spec/Units.tla (unit algebra)')
    res.assume('lengths compared at 1e-8 m (+2e-8 relative), temperatures '
               'at 1e-5 K, flows at 1e-7 kg/s; meshes at 1e-11 m and final '
               'temperatures at 1e-6 K between unit systems; Materials and '
               'power files are SI in every unit system (by design of the '
               'code); Plot and ARC sections out of scope')


META = {
    'text': 'TLC model-checks the conversion pipeline (every value converted '
            'exactly once for all 90 unit combinations; three negative '
            'variants fail) and the unit algebra, then decides for every '
            'dimensional leaf of real parsed inputs - every dimensional key '
            'of the schema, every unit combination - that it equals the '
            'algebra applied once to the value written in the file and the '
            'SI original; unit-free leaves must be untouched; the scalar '
            'converters are driven there and back; sweeps in different unit '
            'systems reproduce mesh and temperatures.',
    'note': 'A guard ties the dimension table to the shipped input template '
            '(new numeric keys must be classified). Orificing and Plot '
            'execution not covered.',
    'technique': 'TLA+ units spec: TLC design model + TLC trace validation '
                 'of parsed-input leaves in all unit systems, scalar '
                 'round trips and sweep pairs',
    'design_ref': 'DESIGN.md section 4, C17',
}

"""C20 - orifice grouping partitions the assemblies; flow distribution
conserves the required flow and respects the pressure-drop limit.

Design: Orifice.tla models _group (sorted sweep, adaptive cut-off, iteration
limit) and distribute (rescale, hold to the smallest member limit, remainder
to the last group, final error checks) with one action per loop body.
MC_Orifice proves Partition / Ordered / AsSwept and termination for every
parameter list of 4 assemblies over 4 values, every group count, three
cut-offs and two increments; MC_Orifice_Dist proves SameFlowInGroup,
SumIsTotal and LimitNeverExceeded for every type assignment, limit pair and
factor history.  Three negative variants (pre-fix cut-off rule, no check on
the remainder, limit from the first member) must fail.
Code: (a) every run TLC finishes in Gen_Orifice (parameter list, count,
cut-off, increment) is replayed into the real Orificing._group; (b) generated
histories (ties, clusters, wide spreads; 2..10 assemblies; group counts
1..N; distribution with and without limit, two assembly types, up to three
rounds with synthetic previous results, with and without regrouping) are run
on the real object.  Every pass, iteration and return is recorded and
validated by TLC against Trace_Orifice.
"""
import random
from concurrent.futures import ProcessPoolExecutor

from harness import common, orifice

LEVEL = 'model_checking'
C20_CLAUSES = {
    'SweepInDescendingOrder', 'PassFollowsCutoffRule',
    'CutoffAdjustedTowardsRequest', 'ReturnsOnlyRequestedCount',
    'EveryAssemblyInOneGroup', 'ExactlyRequestedNonEmptyGroups',
    'GroupsOrderedByParameter', 'ReturnedGroupingIsLastPass',
    'NoErrorWhenRequestMet', 'ErrorOnlyAfterIterationLimit',
    'EveryAssemblyGetsAFlow', 'SameFlowInGroup', 'SumIsRequiredTotal',
    'HeldGroupsWithinLimit', 'ReturnedFlowsAreLastIteration',
    'LimitNeverExceeded', 'NoUnhandledException'}


def design(res, tier):
    r = common.tlc_model('MC_Orifice', 'MC_Orifice.cfg', timeout=1800)
    common.require_ok(r, 'orifice grouping model')
    res.add_tlc(r, 'design: grouping partitions, ordered, terminates')
    r = common.tlc_model('MC_Orifice', 'MC_Orifice_Dist.cfg', timeout=1800)
    common.require_ok(r, 'orifice distribution model')
    res.add_tlc(r, 'design: same flow per group, total conserved, limit kept')
    for cfg, inv, why in (
            ('Neg_Orifice_Stuck.cfg', 'Partition',
             'negative: comparing with NG-1 returns a short grouping'),
            ('Neg_Orifice_NoLast.cfg', 'LimitNeverExceeded',
             'negative: unchecked remainder exceeds the limit'),
            ('Neg_Orifice_FirstType.cfg', 'LimitNeverExceeded',
             'negative: limit of the first member only')):
        r = common.tlc_model('MC_Orifice', cfg, timeout=900)
        common.require_violation(r, inv)
        res.add_tlc(r, why)


def generated_runs(res, tier):
    """Finished runs of the design model, as replay inputs."""
    r = common.tlc_model('MC_Orifice', 'Gen_Orifice.cfg', timeout=1800)
    common.require_ok(r, 'orifice run generator')
    res.add_tlc(r, 'generator: one line per finished grouping run')
    runs = []
    for txt in common._tuples(r['output'], '"RUN"'):
        body = txt.strip()[2:-2]
        # "RUN", <<pw>>, ng, cut0, delta, "outcome", <<sizes>>, it
        parts = body.split('<<')
        pw = [int(x) for x in parts[1].split('>>')[0].split(',')]
        rest = parts[1].split('>>')[1].strip(', ').split(',')
        ng, cut0, delta = int(rest[0]), int(rest[1]), int(rest[2])
        outcome = rest[3].strip().strip('"')
        sizes = [int(x) for x in parts[2].split('>>')[0].split(',')
                 if x.strip()]
        runs.append({'pw': pw, 'ng': ng, 'cutoff': cut0 / 1000.0,
                     'delta': delta / 1000.0, 'model': outcome,
                     'model_sizes': sizes})
    if len(runs) < 1000:
        raise common.MachineryError(f'only {len(runs)} generated runs parsed')
    return runs


def random_pw(rng, n, kind):
    if kind == 'ties':
        vals = [rng.randint(1, 100) for _ in range(max(1, n // 2))]
        return [rng.choice(vals) for _ in range(n)]
    if kind == 'cluster':
        cs = [rng.randint(10, 95) for _ in range(rng.randint(1, 3))]
        return [min(100, max(1, rng.choice(cs) + rng.randint(-2, 2)))
                for _ in range(n)]
    if kind == 'wide':
        return [rng.choice([1, 2, 3, 5, 10, 20, 50, 100]) for _ in range(n)]
    return [rng.randint(1, 100) for _ in range(n)]


def random_histories(rng, count):
    out = []
    for k in range(count):
        n = rng.randint(2, 10)
        kind = rng.choice(['ties', 'cluster', 'wide', 'any'])
        pw = random_pw(rng, n, kind)
        ng = rng.randint(1, min(n, 5))
        types = [rng.randint(0, 1) for _ in range(n)]
        spec = {'pw': pw, 'ng': ng,
                'cutoff': rng.choice([0.001, 0.01, 0.05, 0.2, 1.0]),
                'delta': rng.choice([0.00001, 0.001, 0.01, 0.1]),
                'dist': True, 'types': types,
                'C': [820.0, rng.choice([820.0, 1230.0, 600.0])],
                'K': [1.55e-3, rng.choice([1.5e-3, 1.7e-3])],
                'curve': rng.choice([0.0, 0.2]),
                'rounds': rng.choice([1, 2, 3]),
                'regroup': rng.random() < 0.5,
                'rtol': rng.choice([0.0, 0.01, 0.05]),
                'itol': rng.choice([0.0, 0.01, 0.05]),
                'ntime': rng.choice([1, 2]),
                'seed': rng.randrange(1 << 30)}
        # pressure-drop limit: none, loose, binding, tight
        mode = rng.choice(['none', 'none', 'loose', 'binding', 'tight'])
        if mode != 'none':
            # mean flow per assembly at the target, then its dp on curve 0
            import numpy as np
            p = np.array(pw, float) * orifice.PSCALE * 50.0
            mavg = p.sum() / orifice.CP / 150.0 / n
            dp = 820.0 * mavg ** 1.8 / 1e6
            f = {'loose': 6.0, 'binding': rng.uniform(1.05, 2.0),
                 'tight': rng.uniform(0.5, 1.0)}[mode]
            spec['dpl'] = float(dp * f)
        # a limit above the largest tabulated pressure drop together with a
        # small temperature rise: some groups ask for more flow than the
        # response table covers
        if k % 7 == 3:
            import numpy as np
            mode = 'above'
            spec['t_out'] = orifice.T_IN + rng.uniform(22.0, 34.0)
            p = np.array(pw, float) * orifice.PSCALE * 50.0
            sel0 = [p[i] for i in range(n) if types[i] == 0] or list(p)
            m_max = float(np.mean(sel0)) / 1e6 / 0.05
            dp_max = 820.0 * m_max ** 1.8 / 1e6
            spec['dpl'] = float(dp_max * rng.uniform(1.05, 1.4))
            spec['rounds'] = 1
            spec['regroup'] = False
        spec['mode'] = mode
        out.append((f'h{k}-{kind}-n{n}-g{ng}-{mode}', spec))
    return out


def regroup_histories(rng, count):
    """Histories aimed at the regrouping passes: three or four groups of
    moderately different power, the first a single assembly that the real
    sweep finds over-cooled (the response table used by the optimiser is too
    pessimistic for it: the coldest assembly of the core sits alone in the
    first group), one member of every later group hotter than predicted,
    small tolerances so that moves are tried."""
    out = []
    for k in range(count):
        ng = rng.choice([3, 3, 4])
        sizes = [1] + [rng.randint(3, 6) for _ in range(ng - 1)]
        top = rng.randint(80, 100)
        ratio = rng.uniform(0.80, 0.9)
        levels = [top]
        for g in range(1, ng):
            levels.append(levels[-1] * ratio)
        pw, kfac = [], []
        for g, sz in enumerate(sizes):
            hot = rng.randrange(sz)
            for i in range(sz):
                pw.append(max(1, int(round(levels[g] - (0.6 * i if g else 0)))))
                kfac.append(rng.uniform(0.75, 0.9) if g == 0 else
                            (rng.uniform(1.12, 1.25) if i == hot
                             else rng.uniform(0.97, 1.03)))
        order = list(range(len(pw)))
        rng.shuffle(order)
        pw = [pw[i] for i in order]
        kfac = [kfac[i] for i in order]
        out.append((f'rg{k}-g{ng}-n{len(pw)}', {
            'pw': pw, 'ng': ng, 'cutoff': 0.05, 'delta': 0.005,
            'dist': True, 'types': [0] * len(pw), 'C': [820.0, 820.0],
            'K': [1.6e-3, 1.6e-3], 'curve': 0.0,
            'rounds': rng.choice([2, 3]), 'regroup': True,
            'rtol': rng.choice([0.002, 0.01]),
            'itol': rng.choice([0.0, 0.001]),
            'noise': 0.0, 'kfac': kfac,
            'ntime': rng.choice([1, 2]), 'seed': rng.randrange(1 << 30),
            'mode': 'none'}))
    return out


def run(tier, res, replay=None):
    rng = random.Random(common.seed() * 9176 + 20)
    design(res, tier)
    runs = generated_runs(res, tier)
    if tier == 'quick':
        runs = rng.sample(runs, 600)
    jobs = []
    for i, r in enumerate(runs):
        jobs.append((f'gen{i}', {'pw': r['pw'], 'ng': r['ng'],
                                 'cutoff': r['cutoff'], 'delta': r['delta'],
                                 'dist': False, 'seed': i,
                                 'model': r['model'],
                                 'model_sizes': r['model_sizes']}))
    jobs += random_histories(rng, 300 if tier == 'quick' else 3000)
    jobs += regroup_histories(rng, 80 if tier == 'quick' else 600)
    if replay:
        import json
        rp = json.load(open(replay))
        rp = rp.get('replay', rp)
        jobs = [(rp['label'], rp['spec'])]
    # cores in which only some assembly types are grouped: the flows the
    # optimiser writes into the input of the orificed sweep
    ajobs = []
    pjobs = []
    if not replay:
        # the real set-up of the response data: two grouped types whose
        # positions interleave in id order (or are requested in the other
        # order), response tables with different pressure-drop curves, a
        # pressure-drop limit binding for one of them
        npj = 16 if tier == 'quick' else 120
        for k in range(npj):
            n = rng.choice([4, 7, 7])
            if k % 3 == 0:
                names = ['ta' if i % 2 == 0 else 'tb' for i in range(n)]
            elif k % 3 == 1:
                names = ['tb' if i % 2 == 0 else 'ta' for i in range(n)]
            else:
                names = [rng.choice(['ta', 'tb']) for _ in range(n)]
                names[0], names[1] = 'tb', 'ta'
            pf = [round(rng.uniform(0.3, 1.0), 3) for _ in range(n)]
            # the tighter type carries the larger powers in half the cases
            tight = rng.choice(['ta', 'tb'])
            if k % 2 == 0:
                pf = [round(f * (1.3 if names[i] == tight else 0.8), 3)
                      for i, f in enumerate(pf)]
            C = {'ta': 820.0, 'tb': 820.0}
            C[tight] = rng.choice([2400.0, 3600.0, 5200.0])
            pavg = 2.0e4 * 7 * sum(pf) / n
            mavg = pavg / orifice.CP / 150.0
            dp_tight = C[tight] * mavg ** 1.8 / 1e6
            mode = rng.choice(['binding', 'binding', 'loose', 'none'])
            spec = {'seed': rng.randrange(1 << 30), 'names': names, 'pf': pf,
                    'order': rng.choice([['ta', 'tb'], ['tb', 'ta']]),
                    'ng': rng.choice([2, 3]), 'C': C,
                    'K': {'ta': 1.55e-3, 'tb': rng.choice([1.5e-3, 1.7e-3])},
                    'mode': mode}
            if mode != 'none':
                spec['dpl'] = float(dp_tight * (
                    rng.uniform(1.05, 1.6) if mode == 'binding' else 8.0))
            # a third of the histories has three or four time points with
            # powers that shift unevenly from one to the next
            if k % 3 == 2:
                ntp = rng.choice([3, 4])
                spec['tfac'] = [[round(rng.choice([0.5, 0.8, 1.0, 1.4, 1.9]),
                                       2) for _ in range(n)]
                                for _ in range(ntp)]
            pjobs.append((f'param{k}-n{n}-{mode}', spec))
    if not replay:
        na = 12 if tier == 'quick' else 60
        for k in range(na):
            n = rng.choice([4, 7])
            names = [rng.choice(['ta', 'ta', 'tb', 'tc']) for _ in range(n)]
            if k % 4 == 0:
                names = [x if x != 'tc' else 'ta' for x in names]   # all grouped
            elif 'tc' not in names:
                names[rng.randrange(n - 1)] = 'tc'   # ungrouped before a grouped one
            grouped = [x for x in names if x != 'tc']
            if len(grouped) < 3:
                names = ['ta', 'tc', 'tb', 'ta'] + names[4:]
                grouped = [x for x in names if x != 'tc']
            pf = [round(rng.uniform(0.3, 1.0), 3) for _ in range(n)]
            ajobs.append((f'apply{k}-n{n}', {
                'seed': k, 'names': names, 'pf': pf,
                'objective': ['peak coolant temp', 'peak clad MW temp',
                              'peak fuel temp', 'peak clad ID temp'][k % 4],
                'ng': rng.choice([2, 3]) if len(grouped) >= 4 else 2}))
    elif 'order' in jobs[0][1]:
        pjobs, jobs = jobs, []
    elif 'names' in jobs[0][1]:
        ajobs, jobs = jobs, []
    with ProcessPoolExecutor(max_workers=common.NCPU) as ex:
        traces = list(ex.map(orifice.history, jobs, chunksize=8))
        traces += list(ex.map(orifice.apply_history, ajobs))
        traces += list(ex.map(orifice.parametric_history, pjobs))
    # ---- TLC validates every recorded history
    nsh = min(common.NCPU, max(1, len(traces) // 50))
    shards = [traces[i::nsh] for i in range(nsh)]
    from concurrent.futures import ThreadPoolExecutor

    def val(item):
        i, sh = item
        return common.tlc_traces('Trace_Orifice', 'Trace_Orifice.cfg',
                                 [{'ev': t['ev']} for t in sh],
                                 tag=f'orf{i}')
    with ThreadPoolExecutor(max_workers=nsh) as ex:
        outs = list(ex.map(val, enumerate(shards)))
    stats = {'returned_flows_beyond_scale': 0, 'param_runs': 0,
             'param_with_limit': 0,
             'param_flow_at_limit': 0, 'group_ok': 0, 'group_error': 0, 'dist_ok': 0, 'dist_error': 0,
             'regroup_moved': 0, 'nonpositive_flow': 0, 'limited': 0,
             'model_agree': 0, 'model_differs': 0}
    for sh, out in zip(shards, outs):
        res.add_tlc(dict(out, ok=True), 'trace validation of orificing '
                    'histories')
        res.add_traces(len(sh))
        for tid, (v, l, info) in out['verdicts'].items():
            tr = sh[tid - 1]
            inf = tr['info']
            res.add_eval()
            nontriv = len(tr['ev']) > 2
            res.distinct(tr['label'], nontriv)
            stats['group_' + inf.get('group', 'error')] += 1
            for d in inf.get('dist', []):
                stats['dist_' + d] += 1
            if inf.get('nonpositive_flow'):
                stats['nonpositive_flow'] += 1
            if any(e['e'] == 'DEnd' and e.get('wild') for e in tr['ev']):
                stats['returned_flows_beyond_scale'] += 1
            for e in tr['ev']:
                if e['e'] == 'Regroup' and e['before'] != e['after']:
                    stats['regroup_moved'] += 1
                if tr['label'].startswith('param') and e['e'] == 'DStart':
                    stats['param_runs'] += 1
                    if any(x > 0 for x in e['lim']):
                        stats['param_with_limit'] += 1
                    end = tr['ev'][-1]
                    if end['e'] == 'DEnd' and end['out'] == 'ok' and any(
                            0 < lm <= mm + 2 for lm, mm in
                            zip(e['lim'], end['m'])):
                        stats['param_flow_at_limit'] += 1
            sp = inf['spec']
            if 'model' in sp and sp['model'] == 'ok':
                last = [e for e in tr['ev'] if e['e'] == 'Pass']
                same = (inf.get('group') == 'ok' and last
                        and last[-1]['sizes'] == sp['model_sizes'])
                stats['model_agree' if same else 'model_differs'] += 1
            if v != 'accept':
                clauses = set(c.strip('" ') for c in
                              info.strip('{}').split(',') if c.strip())
                bad = tr['ev'][l - 1] if 0 < l <= len(tr['ev']) else None
                for cl in sorted(clauses):
                    res.violation(
                        f'case={tr["label"]};clause={cl}',
                        f'orificing history rejected (first failing event '
                        f'{l}): {sorted(clauses)}',
                        {'label': tr['label'], 'spec': sp,
                         'first_failing_event': bad})
        common.cleanup(out['dir'])
    res.cov['histories'] = stats
    if not replay:
        if stats['param_with_limit'] == 0 or stats['param_flow_at_limit'] == 0:
            raise common.MachineryError(
                f'no run_parametric history reached its limit: {stats}')
        if stats['group_error'] == 0 or stats['dist_ok'] == 0:
            raise common.MachineryError(f'vacuous exploration: {stats}')
    t0 = next(t for t in traces if len(t['ev']) > 4)
    res.sample({'label': t0['label'], 'events': t0['ev'][:6]})
    res.rule('one case = one history of a real Orificing object: a grouping '
             'run (all passes observed), then 0..3 distribution rounds '
             '(every redistribution iteration observed) with optional '
             'regrouping; distinct by label; non-trivial if at least one '
             'pass was made')
    res.trusted('harness/orifice.py (synthetic response tables and previous '
                'results, own inversion of the pressure-drop table)',
                'spec/Trace_Orifice.tla')
    res.assume('powers, response tables and previous sweep results are '
               'generated, not computed by sweeps (they are inputs of the '
               'algorithms under test); constant-property coolant so the '
               'required flow is Q/(cp dT) exactly; pressure-drop limits '
               'inside the tabulated range; cut-off decisions judged within '
               'a 3e-5 band, flows within 2^-20 of the total')


META = {
    'text': 'TLC model-checks the grouping loop and the redistribution loop '
            '(all 4-assembly parameter lists, counts, cut-offs; all type '
            'assignments, limits and factor histories; three negative '
            'variants fail), replays every finished run of the model into '
            'the real Orificing._group, and validates recorded histories of '
            'the real object (grouping passes, redistribution iterations, '
            'regrouping, up to three rounds) against the same rules.',
    'note': 'Inputs of the algorithms (powers, response curves, previous '
            'results) are generated; the sweeps that would produce them need '
            'binary flux data that is not in the repository.',
    'technique': 'TLA+ orifice spec: TLC design models + replay of '
                 'TLC-generated runs into the code + TLC trace validation of '
                 'recorded grouping/distribution histories',
    'design_ref': 'DESIGN.md section 4, C20',
}

"""C09 - inter-assembly gap mesh is well-formed for every core layout.

Design: MC_CoreGap checks the theorems of the geometric definition
(CoreGap.tla: cells named by side segments and tiling vertices) for every
non-empty occupancy of the 7-position core x every assignment of mesh
classes.  Code: for every such layout (exhaustive) and for sampled 19- and
37-position layouts, Core(...).load(...) is run with stand-in or real
assemblies and TLC validates the code's perimeter walks, the id <-> geometry
bijection (count-once, shared cells seen identically, finer mesh per side),
types, global adjacency, border counts, perimeter coverage, total area
against the corner-only reference mesh of the same layout, and the flow
split (Trace_CoreGap).
"""
import itertools
import json
import random
from concurrent.futures import ProcessPoolExecutor, ThreadPoolExecutor

import numpy as np

from harness import common, core_struct

LEVEL = 'model_checking'


def build(args):
    label, occ, kinds, n_pos = args[:4]
    model = args[4] if len(args) > 4 else 'flow'
    gflow = args[5] if len(args) > 5 else 1.0
    dassh = common.import_dassh()
    # reference: same layout, every assembly without a pin bundle (always
    # with the flowing-gap model: the geometry does not depend on the model)
    cfg0, ev0, core0 = core_struct.core_events(
        dassh, occ, [(0, 0)] * len(occ), n_pos)
    ref = float(core0.gap_params['total area']) if core0 is not None else None
    cfg, ev, core = core_struct.core_events(dassh, occ, kinds, n_pos,
                                            area_ref=ref, model=model,
                                            gap_flow=gflow)
    return {'label': label, 'cfg': cfg, 'ev': ev}


def build_reactor(args):
    """The gap mesh of a Reactor built from an input file (the assemblies
    are the real ones; outer flat-to-flat and pitch from the input)."""
    label, case = args
    from harness import cases
    dassh = common.import_dassh()
    d = common.workdir('c09-' + label)
    try:
        try:
            inp, r = cases.build(dassh, case, str(d))
            cfg, ev = core_struct.reactor_events(dassh, r, case)
        except BaseException as e:
            cfg = {'pos': [[0, 0]], 'scps': [0], 'pitch': [0]}
            ev = [{'e': 'BuildFailed', 'exc': type(e).__name__,
                   'msg': str(e)[:160]}]
        return {'label': label, 'cfg': cfg, 'ev': ev}
    finally:
        common.cleanup(d)


def reactor_cases(rng, tier):
    """Cores from input files, the duct values listed in every order."""
    import copy
    from harness import scenarios
    out = []
    for lab, c in scenarios.core_lattice(rng, tier):
        for listing in (None, 'desc', 'outer-first'):
            cc = copy.deepcopy(c)
            if listing:
                cc['ftf_listing'] = listing
            out.append((f'reactor:{lab}:{listing or "asc"}', cc))
        for gm in ('no_flow', 'duct_average'):
            cc = copy.deepcopy(c)
            cc['gap_model'] = gm
            out.append((f'reactor:{lab}:{gm}', cc))
    return out


def layouts(rng, tier):
    out = []
    kinds_pool = [(0, 0), (2, 0), (3, 0), (3, 1), (4, 0)]
    # all 127 subsets of the 7-position core
    for r in range(1, 8):
        for occ in itertools.combinations(range(7), r):
            nmix = 1 if tier == 'quick' else 3
            for m in range(nmix):
                kinds = [kinds_pool[(i * (m + 2) + m + len(occ)) % len(kinds_pool)]
                         for i in occ]
                out.append((f'7:{"".join(map(str, occ))}:m{m}', list(occ),
                            kinds, 7))
    # uniform meshes
    for k in kinds_pool:
        out.append((f'7:all:{k}', list(range(7)), [k] * 7, 7))
    # very small and zero gap flows (the default bypass fraction is zero):
    # still split in proportion to the areas
    for gf in (1e-5, 3e-8, 0.0):
        for occ in ([0, 1, 2, 4], list(range(7))):
            kinds = [kinds_pool[(i + 1) % len(kinds_pool)] for i in occ]
            for model in ('flow', 'no_flow'):
                out.append((f'7:{"".join(map(str, occ))}:{model}:gf{gf}',
                            occ, kinds, 7, model, gf))
    # the other gap models on a sample of layouts: the gap geometry is the
    # same whatever the heat-transfer model of the gap
    for model in ('no_flow', 'duct_average'):
        for occ in ([0, 1, 2, 4], [1, 4], list(range(7)), [0, 3, 5, 6]):
            kinds = [kinds_pool[(i + len(occ)) % len(kinds_pool)] for i in occ]
            out.append((f'7:{"".join(map(str, occ))}:{model}', occ, kinds, 7,
                        model))
    n19 = 3 if tier == 'quick' else 60
    n37 = 1 if tier == 'quick' else 30
    for n_pos, cnt in ((19, n19), (37, n37)):
        for i in range(cnt):
            kk = rng.randint(max(2, n_pos // 3), n_pos)
            occ = sorted(rng.sample(range(n_pos), kk))
            kinds = [rng.choice(kinds_pool) for _ in occ]
            out.append((f'{n_pos}:rand{i}', occ, kinds, n_pos))
    return out


def run(tier, res, replay=None):
    rng = random.Random(common.seed() * 7919 + 9)
    cfgname = 'MC_CoreGap.cfg' if tier == 'thorough' else 'MC_CoreGap_quick.cfg'
    r = common.tlc_model('MC_CoreGap', cfgname, timeout=3000)
    common.require_ok(r, 'core gap theorems')
    res.add_tlc(r, 'design: theorems of CoreGap.tla for every occupancy x '
                   'mesh-class assignment')
    lay = layouts(rng, tier)
    with ProcessPoolExecutor(max_workers=common.NCPU) as ex:
        traces = list(ex.map(build, lay, chunksize=8))
        traces += list(ex.map(build_reactor, reactor_cases(rng, tier)))
    n = common.NCPU
    shards = [traces[i::n] for i in range(n)]

    def val(item):
        i, sh = item
        return common.tlc_traces('Trace_CoreGap', 'Trace_CoreGap.cfg',
                                 [{'cfg': t['cfg'], 'ev': t['ev']} for t in sh],
                                 tag=f'cg{i}', timeout=3000)
    with ThreadPoolExecutor(max_workers=n) as ex:
        outs = list(ex.map(val, enumerate(shards)))
    for sh, out in zip(shards, outs):
        res.add_tlc(dict(out, ok=True), 'trace validation of Core.load')
        res.add_traces(len(sh))
        for tid, (v, l, info) in out['verdicts'].items():
            tr = sh[tid - 1]
            res.add_eval()
            res.distinct(json.dumps(tr['cfg'], sort_keys=True),
                         len(tr['cfg']['pos']) >= 1)
            if v != 'accept':
                clauses = sorted(c.strip('" ') for c in
                                 info.strip('{}').split(',') if c.strip())
                bad = tr['ev'][l - 1] if 0 < l <= len(tr['ev']) else None
                for cl in clauses:
                    res.violation(f'layout={tr["label"]};clause={cl}',
                                  f'gap mesh rejected at event {l}: {clauses}',
                                  {'label': tr['label'], 'cfg': tr['cfg'],
                                   'event': bad})
        common.cleanup(out['dir'])
    res.sample({'label': traces[5]['label'], 'cfg': traces[5]['cfg'],
                'walk': traces[5]['ev'][0]})
    res.sample({'labels': [t['label'] for t in traces[:10]]})
    res.rule('one case = one core layout (occupied positions x mesh class '
             'per assembly) loaded into the real Core; all 127 non-empty '
             'subsets of the 7-position core are enumerated, 19- and '
             '37-position layouts sampled; distinct by configuration')
    res.cov['exhaustive'] = True
    res.trusted('harness/core_struct.py (stand-in assemblies, asm_map -> '
                'lattice embedding)', 'spec/CoreGap.tla')
    res.assume('the list core._asm_sc_adj[a] is the perimeter walk of '
               'assembly a starting at side 0 (its documented meaning, used '
               'by the duct/gap mapping); geometry at 2^-30 of 8 perimeters')


META = {
    'text': 'TLC checks the theorems of the geometric gap-mesh definition '
            'for every occupancy of the 7-position core x mesh-class '
            'assignment, and validates the mesh the real Core builds for all '
            '127 occupancies (and sampled 19/37-position layouts): perimeter '
            'walks, count-once id bijection, finer mesh per side, adjacency, '
            'border counts, perimeter coverage, mesh-independent total area, '
            'flow split by area.',
    'note': 'Stand-in assemblies expose only what Core.load reads; real '
            'assemblies are covered by the sweep checks (C02). Trusted: '
            'harness/core_struct.py embedding of asm_map.',
    'technique': 'TLA+ geometric spec: TLC theorem check over all layouts + '
                 'TLC trace validation of code-built gap meshes',
    'design_ref': 'DESIGN.md section 4, C09',
}

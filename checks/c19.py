"""C19 - hot-spot temperatures reduce to nominal and grow with uncertainty.

Design: Hotspot.tla transcribes the semi-statistical horizontal method on
integers (subfactors n/4, statements on the squared statistical term);
MC_Hotspot proves UnityIsNominal, AtLeastNominal, Cumulative and the
OUT/IN scaling for all small tables.
Code: generated subfactor tables (with and without dT-dependent
expressions) and every built-in table are pushed through the real pipeline
(_read_hcf_table, _split_clad_subfactors, _evaluate_hcf_expr,
calculate_temps) for all six temperature locations, sigma levels 0..4 in
and out; TLC checks the relations on the results (Trace_Hot).
hotspot.analyze is run on swept 7-assembly cores whose two types alternate
around the ring: with unity subfactors the value reported for every
assembly id must be that assembly's own nominal peak.
"""
import copy
import os
import random
from concurrent.futures import ProcessPoolExecutor

import numpy as np

from harness import common, cases, scenarios, trackcheck, drive
from harness.scenarios import make_core, flow_for, layout_positions
from harness.cases import fitted_type

LEVEL = 'model_checking'
TQ = 2.0 ** -14
REGIONS = ['coolant', 'clad_od', 'clad_mw', 'clad_id', 'fuel_od', 'fuel_cl']
NTERM = {'coolant': 1, 'clad_od': 2, 'clad_mw': 3, 'clad_id': 4,
         'fuel_od': 5, 'fuel_cl': 6}   # after the clad split


PIN_KEYS = ['clad_od', 'clad_mw', 'clad_id', 'fuel_od', 'fuel_cl']


def qt(x):
    return int(round(float(x) / TQ))


def write_table(path, rng, unity=False, expr=False, nd=3, ns=4, order=None):
    rows = ['Subfactor,Type,Coolant,Film,Cladding,Gap,Fuel']
    for i in range(nd):
        vals = [1.0 if unity else rng.choice([1.0, 1.0, rng.uniform(1.0, 1.3)])
                for _ in range(5)]
        cells = [repr(round(v, 4)) for v in vals]
        if expr and i == 0 and not unity:
            cells[1] = '1.0 + 0.002 * np.sqrt(dT)'
        if expr == 'repeat' and i == 1 and not unity:
            # the same text in several columns: each column's factor is
            # evaluated with its own temperature rise
            cells[0] = cells[1] = cells[2] = '1.0 + 0.5 / (dT + 1.0)'
        rows.append(f'direct{i},Direct,' + ','.join(cells))
    for i in range(ns):
        vals = [1.0 if unity else rng.choice([1.0, rng.uniform(1.0, 1.5)])
                for _ in range(5)]
        cells = [repr(round(v, 4)) for v in vals]
        if expr and i == 1 and not unity:
            cells[4] = '1.0 + 10.0 / (dT + 100.0)'
        if expr == 'repeat' and i == 2 and not unity:
            cells[2] = cells[3] = cells[4] = '1.0 + 10.0 / (dT + 100.0)'
            cells[0] = '1.0 + 2.0 / dT'
            cells[1] = '1.0 + 2.0 / dT'
        rows.append(f'stat{i},Statistical,' + ','.join(cells))
    if order is not None:
        # direct and statistical rows in any order (the Type column says
        # what a row is, not its place in the file)
        body = rows[1:]
        order.shuffle(body)
        rows = [rows[0]] + body
    with open(path, 'w') as f:
        f.write('\n'.join(rows) + '\n')


def stated_method(path, region, dT, T_in, IN, OUT):
    """The semi-statistical horizontal method applied to the table as
    written, independently of the solver's reader: every cell of a column
    (number or expression in dT) is evaluated with the temperature rise that
    column's factor multiplies; the Cladding column applies to both halves
    of the cladding when the location lies beyond its mid-wall.
    Returns (hot, zero-sigma cumulative, product of direct factors)."""
    nt = dT.shape[1]
    colof = [0, 1, 2][:nt] if nt <= 3 else [0, 1, 2, 2, 3, 4][:nt]
    with open(path, encoding='utf-8-sig') as f:
        lines = [ln for ln in f.read().splitlines()[1:] if ln.strip()]
    direct, stat = [], []
    for ln in lines:
        cells = ln.split(',')
        fac = np.ones(dT.shape)
        for j in range(nt):
            txt = cells[2 + colof[j]]
            try:
                fac[:, j] = float(txt)
            except ValueError:
                v = np.asarray(eval(txt, {'np': np, 'dT': dT[:, j]}),
                               dtype=float) * np.ones(dT.shape[0])
                v[v == np.inf] = 1.0
                fac[:, j] = v
        (direct if cells[1].lower() == 'direct' else stat).append(fac)
    dprod = np.prod(np.array(direct), axis=0) if direct else np.ones(dT.shape)
    zero = dT * dprod
    czero = T_in + np.cumsum(zero, axis=1)
    sos = np.zeros(dT.shape)
    for g in stat:
        sos += np.cumsum(zero * (g - 1.0), axis=1) ** 2
    hot = czero + OUT * np.sqrt(sos) / IN
    return hot, czero, dprod


def pipeline(dassh, path, region, dT, T_in, IN, OUT):
    hs = dassh.hotspot
    subf, expr = hs._read_hcf_table(path, hs._COLS_NEEDED[region])
    if region in ('clad_id', 'fuel_od', 'fuel_cl'):
        subf, expr = hs._split_clad_subfactors(subf, expr)
    subf = hs._evaluate_hcf_expr(subf, expr, dT)
    for typ in subf:
        subf[typ] = subf[typ][:, :, :dT.shape[1]]
    direct = np.prod(subf['direct'], axis=1)
    ge1 = bool(np.all(subf['direct'] >= 1.0) and np.all(subf['statistical'] >= 1.0))
    T = hs.calculate_temps(T_in, dT, subf, IN_sigma=IN, OUT_sigma=OUT)
    return T, direct, ge1


def table_traces(args):
    seed, n = args
    dassh = common.import_dassh()
    rng = random.Random(seed)
    d = common.workdir(f'c19-{seed}')
    traces = []
    try:
        tables = []
        for i in range(n):
            p = str(d / f't{i}.csv')
            write_table(p, rng, unity=(i == 0),
                        expr=('repeat' if i % 3 == 1 else i % 3 == 2),
                        order=(random.Random(seed * 31 + i)
                               if i % 2 == 1 else None))
            tables.append((f'gen{seed}-{i}', p, i == 0))
        if seed % 4 == 0:
            root = os.path.join(os.path.dirname(dassh.__file__), 'data')
            for f in sorted(os.listdir(root)):
                if f.startswith('hcf_') and f.endswith('.csv'):
                    tables.append((f[:-4], os.path.join(root, f), False))
        T_in = 623.15
        for label, path, unity in tables:
            for region in REGIONS:
                nt = NTERM[region]
                dT = np.array([[rng.uniform(0.5, 120.0) for _ in range(nt)]
                               for _ in range(2)])
                # a rise of exactly zero (pins without a gap have no gap
                # rise; an unheated pin has no rise at all)
                if nt >= 5 and rng.random() < 0.5:
                    dT[:, 4] = 0.0
                elif nt >= 2 and rng.random() < 0.2:
                    dT[1, 1:] = 0.0
                ev = []
                try:
                    for IN in (1, 2, 3):
                        for OUT in (0, 1, 2, 4):
                            T, direct, ge1 = pipeline(dassh, path, region,
                                                      dT.copy(), T_in, IN, OUT)
                            # entry j on its own: the same table with the
                            # rises beyond j left out
                            own = np.array([
                                pipeline(dassh, path, region,
                                         dT[:, :j + 1].copy(), T_in, IN,
                                         OUT)[0][:, j]
                                for j in range(nt)]).T
                            nom = T_in + np.cumsum(dT, axis=1)
                            want, zero, dtruth = stated_method(
                                path, region, dT, T_in, IN, OUT)
                            ge1 = ge1 and bool(np.all(dtruth >= 1.0))
                            for a in range(dT.shape[0]):
                                ev.append({
                                    'e': 'Hot', 'asm': a, 'inn': IN, 'out': OUT,
                                    'unity': int(unity), 'ge1': int(ge1),
                                    'hot': [qt(v) for v in T[a]],
                                    'nom': [qt(v) for v in nom[a]],
                                    'zero': [qt(v) for v in zero[a]],
                                    'own': [qt(v) for v in own[a]],
                                    'want': [qt(v) for v in want[a]],
                                    'tol': 2, 'ptol': 40})
                except SystemExit:
                    continue   # table rejected with an error message
                               # (e.g. clad-only table for a fuel location)
                except BaseException as e:
                    ev = [{'e': 'Crash', 'exc': type(e).__name__,
                           'msg': str(e)[:120]}]
                # events of one assembly only relate to each other
                for a in range(2):
                    sub = [e_ for e_ in ev if e_.get('asm', a) == a]
                    traces.append({'label': f'{label}/{region}/a{a}',
                                   'cfg': {}, 'ev': sub})
    finally:
        common.cleanup(d)
    return traces


class _CoolMax(drive.Observer):
    def __init__(self, r):
        self.r = r
        self.run = [-np.inf] * len(r.assemblies)
        # nominal pin peaks: the largest value of each pin temperature
        # location at the end of any step in the bundle
        self.runP = [{k: -np.inf for k in PIN_KEYS} for _ in r.assemblies]
        self.rowP = [{k: None for k in PIN_KEYS} for _ in r.assemblies]

    def _look(self):
        # every region of the assembly: the step that ends a region is
        # followed by the switch to the next one before the step is over
        # (regions not yet entered are at the inlet temperature, regions
        # left behind keep their last plane)
        for i, a in enumerate(self.r.assemblies):
            for reg in a.region:
                self.run[i] = max(self.run[i], float(np.max(
                    reg.temp['coolant_int'])))
                if reg.is_rodded and \
                        getattr(reg, 'pin_model', None) is not None:
                    tp = np.asarray(reg.pin_temps, dtype=float)
                    for j, k in enumerate(PIN_KEYS):
                        jj = int(np.argmax(tp[:, 4 + j]))
                        if float(tp[jj, 4 + j]) > self.runP[i][k]:
                            self.runP[i][k] = float(tp[jj, 4 + j])
                            # radial profile of that pin at that height
                            self.rowP[i][k] = [float(x) for x in tp[jj]]

    def begin(self, rec):
        self.rec = rec

    def end_step(self, k):
        self._look()


def analyze_trace(args):
    label, case = args
    dassh = common.import_dassh()
    d = common.workdir('c19a-' + label)
    try:
        ev = []
        try:
            write_table(str(d / 'unity.csv'), random.Random(0), unity=True)
            # statistical subfactors only (direct ones are 1): at output
            # confidence 0 the hot spot is the nominal peak
            rows = ['Subfactor,Type,Coolant,Film,Cladding,Gap,Fuel',
                    'd0,Direct,1.0,1.0,1.0,1.0,1.0',
                    's0,Statistical,1.2,1.1,1.3,1.15,1.25',
                    's1,Statistical,1.05,1.4,1.0,1.2,1.1']
            with open(str(d / 'statonly.csv'), 'w') as fh:
                fh.write('\n'.join(rows) + '\n')
            write_table(str(d / 'gen.csv'), random.Random(7))
            write_table(str(d / 'genx.csv'), random.Random(11), expr=True)
            inp, r = cases.build(dassh, case, str(d))
            # the nominal peak coolant temperature is the largest coolant
            # temperature seen at the end of any step of the sweep (kept
            # here, not read back from the solver's own record)
            ob = _CoolMax(r)
            with drive.Recorder(dassh, r, [ob]) as rec:
                rec.sweep()
            res = dassh.hotspot.analyze(r)
            peak_temps, asm_ids = res
            col = {'coolant': None, 'clad_od': 4, 'clad_mw': 5, 'clad_id': 6,
                   'fuel_od': 7, 'fuel_cl': 8}
            for k in peak_temps:
                hot, peak = [], []
                # the assemblies for which the input requests location k
                want_ids = sorted(
                    a.id for a in r.assemblies
                    if any(h.get('temperature') == k for h in
                           case['types'][a.name].get('Hotspot', {}).values()))
                for a in r.assemblies:
                    if a.id not in want_ids:
                        continue
                    if a.id not in asm_ids[k]:
                        continue
                    row = peak_temps[k][asm_ids[k].index(a.id)]
                    hot.append(qt(row[-1]))
                    # what the stated method gives for the table, confidence
                    # levels and location of the request, from the rises of
                    # the nominal peak as the recorder saw it (with unity
                    # subfactors: the nominal peak itself)
                    ai = r.assemblies.index(a)
                    hreq = next(h for h in case['types'][a.name]['Hotspot']
                                .values() if h.get('temperature') == k)
                    T_in = float(case.get('inlet', r.inlet_temp))
                    if k == 'coolant':
                        temps = [T_in, ob.run[ai]]
                    else:
                        last = {'clad_od': 5, 'clad_mw': 6, 'clad_id': 7,
                                'fuel_od': 8, 'fuel_cl': 9}[k]
                        temps = [T_in] + list(ob.rowP[ai][k][3:last])
                    dT_ = np.diff(np.array(temps, dtype=float))[None, :]
                    want_, _, _ = stated_method(
                        str(d / hreq['subfactors']), k, dT_, T_in,
                        hreq['input_sigma'], hreq['output_sigma'])
                    peak.append(qt(want_[0, -1]))
                ev.append({'e': 'Analyze', 'loc': k, 'hot': hot, 'peak': peak,
                           'ids': int(sorted(asm_ids[k]) == want_ids),
                           'tol': 2})
        except BaseException as e:
            ev.append({'e': 'Crash', 'exc': type(e).__name__,
                       'msg': str(e)[:160]})
        return {'label': label, 'cfg': {}, 'ev': ev}
    finally:
        common.cleanup(d)


def analyze_cases(rng):
    OF = 0.060
    A, B = fitted_type(2, OF), fitted_type(3, OF)
    hs = {f'h{i}': {'temperature': loc, 'input_sigma': 3, 'output_sigma': 2,
                    'subfactors': 'unity.csv'}
          for i, loc in enumerate(REGIONS)}
    out = []
    for label, names in (('alternating', ['A', 'B', 'A', 'B', 'A', 'B', 'A']),
                         ('b-first', ['B', 'A', 'A', 'B', 'A', 'A', 'B'])):
        types = {'B': copy.deepcopy(B), 'A': copy.deepcopy(A)}
        p7 = layout_positions(7)
        lay = [(r_, p_, names[i]) for i, (r_, p_) in enumerate(p7)]
        flows = [flow_for(types[n], 0.1) * (0.7 + 0.1 * i)
                 for i, (_, _, n) in enumerate(lay)]
        c = make_core(rng, types, lay, flows, gap_model='flow',
                      bypass_fraction=0.03, power_order=1, ncell=2)
        trackcheck.with_pins(c)
        for t in c['types'].values():
            t['Hotspot'] = copy.deepcopy(hs)
        out.append((label, c))
        # output confidence level 0 with statistical uncertainty only
        c0 = copy.deepcopy(c)
        for t in c0['types'].values():
            for h in t['Hotspot'].values():
                h.update(subfactors='statonly.csv', output_sigma=0)
        out.append((label + '-out0-statonly', c0))
        # real tables (numbers; expressions in the rise) at the usual
        # confidence levels: every location with its own columns
        for tab, io in (('gen.csv', (3, 2)), ('genx.csv', (2, 3))):
            c1 = copy.deepcopy(c)
            for t in c1['types'].values():
                for h in t['Hotspot'].values():
                    h.update(subfactors=tab, input_sigma=io[0],
                             output_sigma=io[1])
            out.append((label + '-' + tab[:-4], c1))
    # power deposited above the bundles (un-rodded region above the rods
    # carrying the larger share): the coolant keeps heating there, and the
    # nominal peak coolant temperature is reached above the bundle
    from harness.scenarios import add_regions
    T = add_regions(fitted_type(2, OF), 0.6,
                    upper=dict(model='simple', vf_coolant=0.4),
                    rods=[0.0, 0.3])
    U = add_regions(fitted_type(3, OF), 0.6,
                    upper=dict(model='6node', vf_coolant=0.4),
                    rods=[0.0, 0.3])
    p7 = layout_positions(7)
    names = ['T', 'U', 'T', 'U', 'T', 'U', 'T']
    types = {'T': T, 'U': U}
    lay = [(r_, p_, names[i]) for i, (r_, p_) in enumerate(p7)]
    flows = [flow_for(types[n], 0.1) * (0.7 + 0.1 * i)
             for i, (_, _, n) in enumerate(lay)]
    c = make_core(rng, types, lay, flows, gap_model='flow',
                  bypass_fraction=0.03, power_order=0, ncell=2,
                  cell_bounds=[0.0, 0.3, 0.6])
    for p_ in c['power'].values():
        for comp in ('pins', 'duct', 'cool'):
            if p_.get(comp) is not None:
                p_[comp][-1] = [[2.5 * abs(co[0])] + [0.0 * x for x in co[1:]]
                                for co in p_[comp][0]]
    trackcheck.with_pins(c)
    for t in c['types'].values():
        t['Hotspot'] = copy.deepcopy(hs)
    out.append(('heated-above-the-bundles', c))
    return out


def run(tier, res, replay=None):
    rng = random.Random(common.seed() * 7919 + 19)
    r = common.tlc_model('MC_Hotspot', 'MC_Hotspot.cfg', timeout=900)
    common.require_ok(r, 'hot-spot method theorems')
    res.add_tlc(r, 'design: theorems of the semi-statistical method on all '
                   'small tables')
    ng = 4 if tier == 'quick' else 16
    with ProcessPoolExecutor(max_workers=common.NCPU) as ex:
        traces = [t for ch in ex.map(table_traces,
                                     [(common.seed() * 100 + i,
                                       4 if tier == 'quick' else 8)
                                      for i in range(ng)]) for t in ch]
        traces += list(ex.map(analyze_trace, analyze_cases(rng)))
    n = common.NCPU
    shards = [traces[i::n] for i in range(n)]
    from concurrent.futures import ThreadPoolExecutor

    def val(item):
        i, sh = item
        return common.tlc_traces('Trace_Hot', 'Trace_Hot.cfg',
                                 [{'cfg': t['cfg'], 'ev': t['ev']} for t in sh],
                                 tag=f'hot{i}')
    with ThreadPoolExecutor(max_workers=n) as ex:
        outs = list(ex.map(val, enumerate(shards)))
    for sh, out in zip(shards, outs):
        res.add_tlc(dict(out, ok=True), 'TLC evaluation of hot-spot results')
        res.add_traces(len(sh))
        for tid, (v, l, info) in out['verdicts'].items():
            tr = sh[tid - 1]
            res.add_eval(len(tr['ev']))
            res.distinct(tr['label'], len(tr['ev']) > 1)
            if v != 'accept':
                clauses = sorted(c.strip('" ') for c in
                                 info.strip('{}').split(',') if c.strip())
                bad = tr['ev'][l - 1] if 0 < l <= len(tr['ev']) else None
                for cl in clauses:
                    res.violation(f'table={tr["label"]};clause={cl}',
                                  f'hot-spot result rejected at event {l}: '
                                  f'{clauses}', {'label': tr['label'],
                                                 'event': bad})
        common.cleanup(out['dir'])
    res.sample({'label': traces[1]['label'], 'event': traces[1]['ev'][0]})
    res.sample({'label': traces[-1]['label'], 'event': traces[-1]['ev'][0]})
    res.rule('one case = (subfactor table, temperature location, assembly) '
             'with 12 (IN, OUT) sigma pairs each checked against the others; '
             'tables: generated (unity / factors >= 1 / with dT expressions) '
             'and all built-in tables; plus hotspot.analyze on swept cores; '
             'distinct by label')
    res.trusted('checks/c19.py (nominal and zero-sigma cumulative sums)',
                'spec/Hotspot.tla')
    res.assume('temperatures at 2^-14 K; proportionality checked by '
               'cross-multiplication with 40 quanta slack')


META = {
    'text': 'TLC proves the theorems of the transcribed hot-spot method on '
            'all small tables and checks, on replays of generated and '
            'built-in tables through the real pipeline for all six '
            'locations and 12 sigma pairs, identity at unity, never below '
            'nominal, zero-sigma = direct product, cumulative sequence and '
            'OUT/IN proportionality; hotspot.analyze on swept cores must '
            'report each assembly\'s own peak.',
    'note': 'Transcription + replay. Trusted: the harness\'s cumulative '
            'sums of nominal and zero-sigma rises.',
    'technique': 'TLA+ transcription of the hot-spot method checked by TLC + '
                 'TLC validation of replayed tables and analyze() results',
    'design_ref': 'DESIGN.md section 4, C19',
}

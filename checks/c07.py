"""C07 - solutions are equivariant under hexagonal symmetries.

Spec: HexLattice.tla (Rot, Mir, D6) and Bundle.tla: TLC proves that
adjacency, pin incidence and the swirl ring of the geometric definition are
equivariant (rotations keep the clockwise successor, the mirror reverses it:
hence wire reversal) - MC_Bundle.  Code = definition is C08's trace.
Code, relational: the power map of an assembly is moved by the group action
on geometric keys (checked by TLC to be the specification's action) and the
sweep repeated; coolant, duct, bypass and pin fields of both runs must agree
cell by cell at every compared plane, for all six rotations and the mirror
with reversed wire.  Whole cores are rotated by 60 degrees about the centre
(positions matched by published assembly coordinates, every assembly's power
map turned with it): all assembly fields and the gap temperatures around
every assembly must rotate with the loading.
"""
import copy
import math
import random
from concurrent.futures import ProcessPoolExecutor

import numpy as np

from harness import common, cases, scenarios, fields, equi, trackcheck
from harness.scenarios import (bundle_type, add_regions, make_core, flow_for,
                               layout_positions)
from harness.cases import fitted_type, pos_index
from harness.common import q

LEVEL = 'model_checking'


def single_pair(args):
    label, case, g = args
    dassh = common.import_dassh()
    d = common.workdir('c07-' + label)
    ev = []
    try:
        try:
            name = case['assign'][0][0]
            t = case['types'][name]
            perms = equi.perms_for_type(dassh, t, g)
            ev.append({'e': 'Perm', 'pairs': perms['pairs']})
            ev.append({'e': 'PinPerm', 'pairs': perms['pin_pairs']})
            c2 = copy.deepcopy(case)
            c2['power']['1'] = equi.permute_power(case['power']['1'], perms)
            if g[1] == 1:
                t2 = c2['types'][name]
                t2['wire_direction'] = ('clockwise' if t.get(
                    'wire_direction', 'counterclockwise') == 'counterclockwise'
                    else 'counterclockwise')
            r1, s1 = fields.run_fields(dassh, case, str(d / 'a'), every=40)
            r2, s2 = fields.run_fields(dassh, c2, str(d / 'b'), every=40)
            ev += equi.cmp_events(s1, s2, [perms], [0], float(r1.inlet_temp),
                                  'FieldsTransformWithThePowerMap')
        except BaseException as e:
            ev.append({'e': 'Crash', 'exc': type(e).__name__,
                       'msg': str(e)[:200]})
        return {'label': label, 'cfg': {'g': list(g),
                                        'N': case['types'][case['assign'][0][0]]['num_rings']},
                'ev': ev}
    finally:
        common.cleanup(d)


def rot_xy(xy, k):
    a = k * math.pi / 3
    c, s = math.cos(a), math.sin(a)
    return np.array([c * xy[0] - s * xy[1], s * xy[0] + c * xy[1]])


def core_pair(args):
    label, case, k = args
    dassh = common.import_dassh()
    d = common.workdir('c07c-' + label)
    g = (k, 0)
    ev = []
    try:
        try:
            # positions: published coordinates of a full map of this size
            npos = max(pos_index(a[1], a[2]) for a in case['assign']) + 1
            nring = 1
            while 3 * nring * (nring - 1) + 1 < npos:
                nring += 1
            nfull = 3 * nring * (nring - 1) + 1
            core0 = dassh.core.Core(np.arange(nfull, dtype=float), 1.0, 1.0,
                                    equi.bs.const_material(dassh, 'x'))
            xy = core0.map_assembly_xy()
            ringpos = scenarios.layout_positions(nfull)
            c2 = copy.deepcopy(case)
            c2['assign'] = []
            c2['power'] = {}
            move = {}
            for a in case['assign']:
                i = pos_index(a[1], a[2])
                target = rot_xy(xy[i], k)
                j = int(np.argmin(np.linalg.norm(xy - target, axis=1)))
                if np.linalg.norm(xy[j] - target) > 1e-9:
                    raise common.MachineryError('rotation leaves the lattice')
                move[i] = j
            perm_cache = {}
            for a in case['assign']:
                i = pos_index(a[1], a[2])
                j = move[i]
                rj, pj = ringpos[j]
                c2['assign'].append([a[0], rj, pj, dict(a[3])])
                t = case['types'][a[0]]
                if a[0] not in perm_cache:
                    perm_cache[a[0]] = equi.perms_for_type(dassh, t, g)
                pw = case['power'][str(i + 1)]
                if t.get('use_low_fidelity_model'):
                    c2['power'][str(j + 1)] = equi.permute_power(
                        pw, perm_cache[a[0]])
                else:
                    c2['power'][str(j + 1)] = equi.permute_power(
                        pw, perm_cache[a[0]])
            c2['assign'].sort(key=lambda a_: pos_index(a_[1], a_[2]))
            r1, s1 = fields.run_fields(dassh, case, str(d / 'a'), every=60)
            r2, s2 = fields.run_fields(dassh, c2, str(d / 'b'), every=60)
            # assembly i of run 1 (ordered by position id) -> index in run 2
            ids1 = sorted(pos_index(a[1], a[2]) for a in case['assign'])
            ids2 = sorted(move[i] for i in ids1)
            amap = [ids2.index(move[i]) for i in ids1]
            names = {pos_index(a[1], a[2]): a[0] for a in case['assign']}
            perms = [perm_cache[names[i]] for i in ids1]
            ev.append({'e': 'Perm', 'pairs': perms[0]['pairs']})
            ev += equi.cmp_events(s1, s2, perms, amap, float(r1.inlet_temp),
                                  'FieldsRotateWithTheCore')
            # gap temperatures around every assembly: side s -> side s - k
            if r1.core.model is not None:
                Tin = float(r1.inlet_temp)
                for kk in sorted(s1):
                    for i, j in enumerate(amap):
                        def sides(r, snap, ai):
                            adj = r.core._asm_sc_adj[ai]
                            tg = snap['gap'][adj[adj > 0] - 1]
                            sc = r.core._geom_params['sc_per_side'][ai]
                            out, p0 = [], 0
                            for s_ in range(6):
                                n_ = int(sc[s_]) + 1
                                out.append(tg[p0:p0 + n_])
                                p0 += n_
                            return out
                        a_s = sides(r1, s1[kk], i)
                        b_s = sides(r2, s2[kk], j)
                        xa = np.concatenate(a_s)
                        xb = np.concatenate([b_s[(s_ - k) % 6]
                                             for s_ in range(6)])
                        ev.append({'e': 'Cmp', 'what': 'GapFieldRotatesWithTheCore',
                                   'k': kk, 'asm': i + 1, 'tol': 2,
                                   'a': [q(float(v) - Tin, equi.TSCALE) for v in xa],
                                   'b': [q(float(v) - Tin, equi.TSCALE) for v in xb]
                                   if xa.shape == xb.shape else []})
        except common.MachineryError:
            raise
        except BaseException as e:
            ev.append({'e': 'Crash', 'exc': type(e).__name__,
                       'msg': str(e)[:200]})
        n0 = case['types'][case['assign'][0][0]]['num_rings']
        return {'label': label, 'cfg': {'g': [k, 0], 'N': n0}, 'ev': ev}
    finally:
        common.cleanup(d)


def run(tier, res, replay=None):
    rng = random.Random(common.seed() * 7919 + 7)
    r = common.tlc_model('MC_Bundle', 'MC_Bundle.cfg', workers=2,
                         timeout=1800)
    common.require_ok(r, 'D6 equivariance of the bundle definition')
    res.add_tlc(r, 'design: adjacency, pin incidence and swirl ring are D6 '
                   'equivariant (rotation keeps, mirror reverses the ring)')
    sl = dict(scenarios.single_lattice(rng, tier))
    singles = []
    keys = ['rod3-flowgap', 'rod3-dd-flowbyp', 'rod3-wirecw-mit',
            'multi-simple', 'multi-6node']
    if tier == 'thorough':
        keys += ['rod4-adiabatic', 'rod5-dd', 'rod3-3duct', 'rod2-convapprox']
    for kname in keys:
        case = sl[kname]
        case = trackcheck.with_pins(copy.deepcopy(case)) \
            if kname in ('rod3-flowgap', 'multi-simple') else case
        gs = [(1, 0), (0, 1)] if tier == 'quick' else \
            [(1, 0), (2, 0), (3, 0), (4, 0), (5, 0), (0, 1), (2, 1)]
        if kname == 'rod3-flowgap':
            gs = [(k, 0) for k in range(1, 6)] + [(0, 1), (3, 1)]
        for g in gs:
            singles.append((f'{kname}-g{g[0]}{g[1]}', case, g))
    # temperature-dependent coolant in un-rodded regions of both kinds
    # above a bundle with a one-sided power map, coupled to a gap: the
    # properties of a region may depend on no particular node
    from harness.scenarios import add_regions, bundle_type
    for nm, up in (('6node', dict(model='6node', vf_coolant=0.35)),
                   ('simple', dict(model='simple', vf_coolant=0.35))):
        tt = add_regions(bundle_type(2), 0.6, upper=up, rods=[0.0, 0.3])
        cs = make_core(rng, {'a1': tt}, [(1, 1, 'a1')], [flow_for(tt, 0.05)],
                       gap_model='flow', bypass_fraction=0.05,
                       coolant='sodium', ncell=2, power_order=1,
                       cell_bounds=[0.0, 0.3, 0.6])
        for g in ((1, 0), (2, 0), (4, 0), (0, 1)):
            singles.append((f'sodium-{nm}-above-bundle-g{g[0]}{g[1]}', cs, g))
    OF = 0.060
    A, B = fitted_type(2, OF), fitted_type(3, OF)
    DD = fitted_type(3, OF, nd=2, wall=0.002, byp=0.0015)
    U = fitted_type(3, OF, use_low_fidelity_model=True)
    p7 = layout_positions(7)

    def core(types, names, gap_model='flow', skip=(), **kw):
        lay = [(r_, p_, names[i]) for i, (r_, p_) in enumerate(p7)
               if i not in skip]
        flows = [flow_for(types[n], 0.1) * (0.8 + 0.07 * i)
                 for i, (_, _, n) in enumerate(lay)]
        return make_core(rng, types, lay, flows, gap_model=gap_model,
                         bypass_fraction=0.03, power_order=1, ncell=2, **kw)
    lay_s = [(r_, p_, 'A') for (r_, p_) in p7]
    fs_ = flow_for(A, 0.1)
    starved = make_core(rng, {'A': A}, lay_s,
                        [fs_, fs_, 0.012 * fs_, fs_, 0.9 * fs_, fs_, 1.1 * fs_],
                        gap_model='no_flow', bypass_fraction=0.03,
                        power_order=1, ncell=2,
                        setup={'conv_approx': True,
                               'conv_approx_dz_cutoff': 0.001})
    cores = [('core-mixed', core({'A': A, 'B': B},
                                 ['A', 'B', 'A', 'A', 'A', 'A', 'A']), 1),
             ('core-mixed-k2', core({'A': A, 'B': B},
                                    ['B', 'A', 'B', 'A', 'A', 'B', 'A']), 2),
             ('core-missing', core({'A': A, 'B': B},
                                   ['A', 'B', 'A', 'A', 'B', 'A', 'A'],
                                   skip=(3,)), 1),
             # temperature-dependent coolant with a property-update
             # tolerance: when correlations are refreshed is part of each
             # assembly's own state
             ('core-sodium-updtol', core({'A': A, 'B': B},
                                         ['A', 'A', 'B', 'A', 'A', 'A', 'A'],
                                         coolant='sodium',
                                         setup={'param_update_tol': 0.02}), 1),
             ('core-dd-lowfi-noflow', core({'A': A, 'DD': DD, 'U': U},
                                           ['DD', 'A', 'U', 'A', 'A', 'U', 'A'],
                                           gap_model='no_flow'), 1),
             # two types with the same ring count and different pin pitch
             # side by side (the shared gap cells follow the smaller pitch,
             # whichever assembly is numbered first)
             ('core-equal-rings-two-pitches', core(
                 {'B': B, 'B2': fitted_type(3, OF, p2d=1.12)},
                 ['B', 'B2', 'B', 'B', 'B2', 'B2', 'B']), 1),
             # the low-flow wall approximation applies to the assembly that
             # needs it, wherever that assembly sits in the numbering
             ('core-one-starved-low-flow-approx', starved, 1),
             ('core-equal-rings-two-pitches-noflow', core(
                 {'B': B, 'B2': fitted_type(3, OF, p2d=1.12)},
                 ['B2', 'B', 'B2', 'B', 'B', 'B2', 'B'],
                 gap_model='no_flow'), 2)]
    if tier == 'thorough':
        cores += [('core-ductavg', core({'A': A, 'B': B},
                                        ['A', 'B', 'A', 'A', 'A', 'A', 'A'],
                                        gap_model='duct_average'), 3),
                  ('core-mixed-k5', core({'A': A, 'B': B},
                                         ['A', 'A', 'A', 'B', 'A', 'A', 'A']), 5)]
    with ProcessPoolExecutor(max_workers=common.NCPU) as ex:
        traces = list(ex.map(single_pair, singles))
        traces += list(ex.map(core_pair, cores))
    n = min(common.NCPU, len(traces))
    shards = [traces[i::n] for i in range(n)]
    from concurrent.futures import ThreadPoolExecutor

    def val(item):
        i, sh = item
        return common.tlc_traces('Trace_Equi', 'Trace_Equi.cfg',
                                 [{'cfg': t['cfg'], 'ev': t['ev']} for t in sh],
                                 tag=f'eq{i}')
    with ThreadPoolExecutor(max_workers=n) as ex:
        outs = list(ex.map(val, enumerate(shards)))
    for sh, out in zip(shards, outs):
        res.add_tlc(dict(out, ok=True), 'trace validation of symmetry pairs')
        res.add_traces(len(sh))
        for tid, (v, l, info) in out['verdicts'].items():
            tr = sh[tid - 1]
            res.add_eval()
            res.distinct(tr['label'])
            if v != 'accept':
                clauses = sorted(c.strip('" ') for c in
                                 info.strip('{}').split(',') if c.strip())
                bad = tr['ev'][l - 1] if 0 < l <= len(tr['ev']) else None
                if bad and 'a' in bad and len(bad['a']) == len(bad.get('b', [])):
                    bad = dict(bad, maxdiff_quanta=max(
                        abs(x - y) for x, y in zip(bad['a'], bad['b'])))
                for cl in clauses:
                    res.violation(f'pair={tr["label"]};clause={cl}',
                                  f'symmetry pair rejected at event {l}: '
                                  f'{clauses}', {'label': tr['label'],
                                                 'cfg': tr['cfg'],
                                                 'event': bad})
        common.cleanup(out['dir'])
    res.sample({'pair': traces[0]['label'], 'cfg': traces[0]['cfg'],
                'cmp': next((e for e in traces[0]['ev'] if e['e'] == 'Cmp'),
                            None)})
    res.sample({'pairs': [t['label'] for t in traces]})
    res.rule('one case = one pair of sweeps related by a group element '
             '(single assemblies: rotations and mirrors with wire reversal; '
             'cores: rotation of the loading); every compared plane x field '
             'is an obligation; distinct by label')
    res.trusted('harness/equi.py (group action on keys, power-map '
                'permutation)', 'harness/bundle_struct.py projection',
                'spec/HexLattice.tla, spec/Bundle.tla')
    res.assume('temperatures compared as rises above inlet at 2^-20 of '
               '1024 K (1e-6 K), 2 quanta; every 40th / 60th plane')


META = {
    'text': 'TLC proves D6 equivariance of the bundle definition (adjacency, '
            'pin incidence, swirl ring orientation) and validates pairs of '
            'real sweeps related by rotations / the mirror with wire '
            'reversal (single assemblies, permutation checked by TLC to be '
            'the group action on geometric keys) and by a rotation of the '
            'whole core loading: every coolant, duct, bypass, pin and gap '
            'field must transform with the power map at every compared '
            'plane (1e-6 K).',
    'note': 'Cells are identified by published centroids projected to the '
            'lattice, never by index formulas. Trusted: harness/equi.py.',
    'technique': 'TLA+ lattice/bundle spec: TLC equivariance theorems + TLC '
                 'validation of metamorphic run pairs',
    'design_ref': 'DESIGN.md section 4, C07',
}

"""C06 - assemblies interact only through duct-wall heat transfer.

Design: MC_Iso (3 assemblies, two of one type, all advance orders): with one
mutable helper object per assembly every assembly reads what it wrote
itself and the plane result is order independent; with one object per type
(clones sharing the template's object) ReadOwn fails (Neg_Iso_SharedPerType).
Code: (a) ownership - the mutable objects reachable from each assembly that
are written during a probe sweep must belong to one assembly only;
(b) non-interference - digests of every other assembly's observable state
before and after each Assembly.calculate (Trace_Iso);
(c) relations between runs - the same assembly alone and inside 7-position
adiabatic cores (several per type, different orders) on identical planes
must give identical fields at every compared plane (Trace_Pair).
"""
import copy
import random
import zlib
from concurrent.futures import ProcessPoolExecutor

import numpy as np

from harness import common, cases, scenarios, drive, fields, iso, trackcheck
from harness.scenarios import (bundle_type, add_regions, make_core, flow_for,
                               layout_positions)
from harness.cases import fitted_type, pos_index

LEVEL = 'model_checking'
OF = 0.060


def iso_core(rng, coolant, with_pins=False, setup=None, gap_model='none'):
    A = add_regions(fitted_type(3, OF), 0.6,
                    upper=dict(model='simple', vf_coolant=0.35))
    DD = fitted_type(2, OF, nd=2, wall=0.002, byp=0.0015)
    U6 = add_regions(fitted_type(2, OF), 0.6,
                     lower=dict(model='6node', vf_coolant=0.3))
    types = {'A': A, 'DD': DD, 'U6': U6}
    names = ['A', 'A', 'DD', 'A', 'DD', 'U6', 'U6']
    p7 = layout_positions(7)
    lay = [(r, p, names[i]) for i, (r, p) in enumerate(p7)]
    flows = [flow_for(types[n], 0.05) * (0.7 + 0.1 * i)
             for i, (_, _, n) in enumerate(lay)]
    c = make_core(rng, types, lay, flows, gap_model=gap_model,
                  bypass_fraction=(0.0 if gap_model == 'none' else 0.03),
                  coolant=coolant, power_order=1, ncell=3, own_cells=True,
                  setup=dict({'axial_mesh_size': 0.0005,
                              'axial_plane': [0.15, 0.3, 0.45]},
                             **(setup or {})))
    if with_pins:
        trackcheck.with_pins(c)
    return c


def own_and_steps(args):
    label, case = args
    dassh = common.import_dassh()
    d = common.workdir('c06-' + label)
    try:
        ev = []
        try:
            inp, r = cases.build(dassh, case, str(d / 'own'))
            own, shared = iso.ownership_events(dassh, r)
            ev += own
            inp, r = cases.build(dassh, case, str(d / 'step'))
            undo = iso.install_step_digests(None, dassh, r, ev, every=3)
            try:
                r.axial_step0()
                for k in range(1, min(len(r.z), 40)):
                    r.axial_step(r.z[k], r.dz[k - 1], k)
            finally:
                undo()
        except BaseException as e:
            ev.append({'e': 'Crash', 'exc': type(e).__name__,
                       'msg': str(e)[:160]})
            shared = {}
        return {'label': label, 'cfg': {}, 'ev': ev,
                'shared': {str(k): v[:4] for k, v in list(shared.items())[:12]}}
    finally:
        common.cleanup(d)


def alone_case(core_case, idx):
    """The assembly at layout entry idx of a core case, alone."""
    c = copy.deepcopy(core_case)
    name, ring, pos, kw = core_case['assign'][idx]
    c['assign'] = [[name, 1, 1, kw]]
    c['types'] = {name: copy.deepcopy(core_case['types'][name])}
    aid = str(pos_index(ring, pos) + 1)
    c['power'] = {'1': copy.deepcopy(core_case['power'][aid])}
    return c


def pair_trace(args):
    label, core_case, idx, alt_case, alt_idx = args
    what = ('UntouchedByAssembliesItDoesNotBorder'
            if label.startswith('distant') else
            'IndependentOfHowManyShareItsType'
            if label.startswith('shared-type') else
            'IdenticalToStandAloneRun')
    dassh = common.import_dassh()
    d = common.workdir('c06p-' + label)
    ev = []
    try:
        try:
            # each run in its own interpreter: state left behind by one run
            # (module- or class-level) must not be able to hide in the other
            z1, s1 = fields.run_fields_isolated(core_case, str(d / 'a'),
                                                every=100)
            z2, s2 = fields.run_fields_isolated(alt_case, str(d / 'b'),
                                                every=100)
            if sorted(s1) != sorted(s2) or not np.array_equal(z1, z2):
                ev.append({'e': 'Cmp', 'what': 'SameAxialPlanes', 'num': 1,
                           'den': 1, 'tol': 0, 'a': [len(z1)],
                           'b': [len(z2)]})
            else:
                for k in sorted(s1):
                    a, b = s1[k]['asm'][idx], s2[k]['asm'][alt_idx]
                    for f in ('cool', 'duct', 'byp', 'pins'):
                        if f in a or f in b:
                            xa = np.ravel(a.get(f, np.zeros(0)))
                            xb = np.ravel(b.get(f, np.zeros(0)))
                            ev.append({'e': 'Same',
                                       'what': what,
                                       'field': f, 'k': k,
                                       'a': [zlib.crc32(xa.tobytes()) & 0x3fffffff],
                                       'b': [zlib.crc32(xb.tobytes()) & 0x3fffffff],
                                       'maxdiff': float(np.max(np.abs(xa - xb)))
                                       if xa.shape == xb.shape and xa.size else -1.0})
                    ev.append({'e': 'Same', 'what': what,
                               'field': 'dp', 'k': k,
                               'a': [zlib.crc32(repr(a['dp']).encode()) & 0x3fffffff],
                               'b': [zlib.crc32(repr(b['dp']).encode()) & 0x3fffffff],
                               'maxdiff': abs(a['dp'] - b['dp'])})
        except BaseException as e:
            ev.append({'e': 'Crash', 'exc': type(e).__name__,
                       'msg': str(e)[:160]})
        return {'label': label, 'cfg': {'rel': 'identity'}, 'ev': ev}
    finally:
        common.cleanup(d)


def run(tier, res, replay=None):
    rng = random.Random(common.seed() * 7919 + 6)
    r = common.tlc_model('MC_Iso', 'MC_Iso.cfg', workers=2, timeout=600)
    common.require_ok(r, 'isolation design')
    res.add_tlc(r, 'design: one helper object per assembly => ReadOwn, '
                   'Confluence for all orders')
    r = common.tlc_model('MC_Iso', 'Neg_Iso_SharedPerType.cfg', workers=2,
                         timeout=600)
    common.require_violation(r, 'ReadOwn')
    res.add_tlc(r, 'negative: one object per type breaks ReadOwn')
    cores = [('core-sodium', iso_core(rng, 'sodium')),
             ('core-const-pins', iso_core(rng, 'const', with_pins=True)),
             ('core-sodium-gap-updtol', iso_core(
                 rng, 'sodium', gap_model='flow',
                 setup={'param_update_tol': 0.02}))]
    pairs = []
    base = cores[0][1]
    for idx in ((1, 2, 5) if tier == 'quick' else range(7)):
        pairs.append((f'alone-vs-core-{idx}', base, idx,
                      alone_case(base, idx), 0))
    # a different order of the assignment list / positions swapped
    sw = copy.deepcopy(base)
    a, b = 1, 3   # two assemblies of type A
    sw['assign'][a][3], sw['assign'][b][3] = sw['assign'][b][3], sw['assign'][a][3]
    ida = str(pos_index(sw['assign'][a][1], sw['assign'][a][2]) + 1)
    idb = str(pos_index(sw['assign'][b][1], sw['assign'][b][2]) + 1)
    sw['power'][ida], sw['power'][idb] = sw['power'][idb], sw['power'][ida]
    pairs.append(('swapped-positions', base, a, sw, b))
    pins = cores[1][1]
    pairs.append(('alone-vs-core-pins', pins, 3, alone_case(pins, 3), 0))
    # (adiabatic, so that alone and in-core runs are comparable)
    upd = iso_core(rng, 'sodium', setup={'param_update_tol': 0.02})
    for idx in (1, 3):
        pairs.append((f'alone-vs-core-updtol-{idx}', upd, idx,
                      alone_case(upd, idx), 0))
    # an assembly declared by a position-range line in non-SI units, against
    # the same assembly alone: what others share its input line must not
    # matter
    from harness import unitsys
    A1 = fitted_type(2, OF)
    F = flow_for(A1, 0.06)
    lay = [(r_, p_, 'A') for (r_, p_) in layout_positions(7)]
    rc = make_core(rng, {'A': A1}, lay, [F] * 7, gap_model='none',
                   bypass_fraction=0.0, coolant='sodium', ncell=2,
                   setup={'axial_mesh_size': 0.0005,
                          'axial_plane': [0.15, 0.3, 0.45]})
    al = copy.deepcopy(rc)
    al['assign'] = [['A', 1, 1, {'FLOWRATE': F}]]
    al['power'] = {'1': copy.deepcopy(rc['power'][str(pos_index(2, 3) + 1)])}
    rc['assign'] = [['A', 1, 1, {'FLOWRATE': F}],
                    ['A', 2, 1, {'FLOWRATE': F}, 6]]
    u = {'length': 'cm', 'temperature': 'c', 'mass_flow_rate': 'lb/min'}
    pairs.append(('alone-vs-core-range-line-units',
                  unitsys.case_in_units(rc, u), 3,
                  unitsys.case_in_units(al, u), 0))
    # low-flow convection approximation: switched on for the assembly that
    # needs it, not for the ones that follow it in the core
    A2 = fitted_type(2, OF)
    lay2 = [(1, 1, 'A'), (2, 1, 'A'), (2, 2, 'A')]
    Fb = flow_for(A2, 0.06)
    ca = make_core(rng, {'A': A2}, lay2, [Fb * 0.01, Fb, Fb * 0.9],
                   gap_model='none', bypass_fraction=0.0, coolant='const',
                   ncell=2,
                   setup={'axial_mesh_size': 0.0005, 'conv_approx': True,
                          'conv_approx_dz_cutoff': 0.005,
                          'axial_plane': [0.15, 0.3, 0.45]})
    pairs.append(('alone-vs-core-after-low-flow-convapprox', ca, 1,
                  alone_case(ca, 1), 0))
    # two assemblies on opposite sides of an empty centre (they touch no
    # common gap cell), coupled gap models: what the far one does must not
    # reach the near one
    A3 = fitted_type(2, OF)
    Fc = flow_for(A3, 0.07)
    for gm in ('flow', 'no_flow'):
        far = make_core(rng, {'A': A3}, [(2, 1, 'A'), (2, 4, 'A')],
                        [Fc, 0.8 * Fc], gap_model=gm, bypass_fraction=0.03,
                        coolant='const', ncell=2,
                        setup={'axial_mesh_size': 0.0005,
                               'axial_plane': [0.15, 0.3, 0.45]})
        hot = copy.deepcopy(far)
        idy = str(pos_index(2, 4) + 1)
        for comp in ('pins', 'duct', 'cool'):
            if hot['power'][idy].get(comp) is not None:
                hot['power'][idy][comp] = [
                    [[3.0 * x for x in co] for co in cell]
                    for cell in hot['power'][idy][comp]]
        pairs.append((f'distant-assembly-power-{gm}', far, 0, hot, 0))
    # the rows of the power file grouped by component across the assemblies
    # (all pin rows, then all duct rows, ...) instead of by assembly: what an
    # assembly receives does not depend on where its rows sit in the file
    byc = copy.deepcopy(base)
    byc['csv_rows'] = 'by-component'
    for idx in (1, 4):
        pairs.append((f'alone-vs-core-rows-by-component-{idx}', byc, idx,
                      alone_case(base, idx), 0))
    # a gap-coupled core with two bundle meshes (19 pins at the centre, 7
    # pins around it): the six ring assemblies as one shared type and as six
    # identically worded types of their own - every assembly must come out
    # the same (what is built per assembly depends on its surroundings, not
    # on which other positions carry the same type name)
    C19 = fitted_type(3, OF)
    R7 = fitted_type(2, OF)
    p7 = layout_positions(7)
    for gm in ('no_flow', 'flow'):
        names = ['C'] + ['R'] * 6
        tys = {'C': C19, 'R': R7}
        sh = make_core(rng, tys, [(r_, p_, names[i]) for i, (r_, p_) in
                                  enumerate(p7)],
                       [flow_for(tys[n], 0.08) for n in names], gap_model=gm,
                       bypass_fraction=0.03, coolant='const', ncell=2,
                       power_order=0,
                       setup={'axial_mesh_size': 0.002,
                              'axial_plane': [0.15, 0.3, 0.45]})
        own = copy.deepcopy(sh)
        own['types'] = {'C': copy.deepcopy(C19)}
        for i in range(1, 7):
            own['types'][f'R{i}'] = copy.deepcopy(R7)
            ent = list(own['assign'][i])
            ent[0] = f'R{i}'
            own['assign'][i] = type(sh['assign'][i])(ent)
        for idx in (0, 2, 5):
            pairs.append((f'shared-type-vs-own-types-{gm}-{idx}', sh, idx,
                          own, idx))
    with ProcessPoolExecutor(max_workers=common.NCPU) as ex:
        t_own = list(ex.map(own_and_steps, cores))
        t_pair = list(ex.map(pair_trace, pairs))
    out = common.tlc_traces('Trace_Iso', 'Trace_Iso.cfg',
                            [{'cfg': t['cfg'], 'ev': t['ev']} for t in t_own],
                            tag='iso')
    res.add_tlc(dict(out, ok=True), 'trace validation of ownership and '
                                    'per-step non-interference')
    res.add_traces(len(t_own))
    for tid, (v, l, info) in out['verdicts'].items():
        tr = t_own[tid - 1]
        res.add_eval()
        res.distinct(tr['label'])
        if v != 'accept':
            clauses = sorted(c.strip('" ') for c in info.strip('{}').split(',')
                             if c.strip())
            for cl in clauses:
                res.violation(f'core={tr["label"]};clause={cl}',
                              f'isolation trace rejected at event {l}: '
                              f'{clauses}; shared written objects: '
                              f'{tr["shared"]}',
                              {'label': tr['label'], 'shared': tr['shared'],
                               'event': tr['ev'][l - 1] if 0 < l <= len(tr['ev']) else None})
    common.cleanup(out['dir'])
    out = common.tlc_traces('Trace_Pair', 'Trace_Pair.cfg',
                            [{'cfg': t['cfg'], 'ev': t['ev']} for t in t_pair],
                            tag='isopair')
    res.add_tlc(dict(out, ok=True), 'trace validation of alone / in-core pairs')
    res.add_traces(len(t_pair))
    for tid, (v, l, info) in out['verdicts'].items():
        tr = t_pair[tid - 1]
        res.add_eval()
        res.distinct(tr['label'])
        if v != 'accept':
            clauses = sorted(c.strip('" ') for c in info.strip('{}').split(',')
                             if c.strip())
            bad = tr['ev'][l - 1] if 0 < l <= len(tr['ev']) else None
            for cl in clauses:
                res.violation(f'pair={tr["label"]};clause={cl}',
                              f'run pair rejected at event {l}: {clauses} '
                              f'(max difference {bad.get("maxdiff") if bad else None})',
                              {'label': tr['label'], 'event': bad})
    common.cleanup(out['dir'])
    res.sample({'own': t_own[0]['ev'][0], 'step': t_own[0]['ev'][-1]})
    res.sample({'pair': t_pair[0]['label'], 'event': t_pair[0]['ev'][0]})
    res.rule('cases: (a) ownership + per-step digests on 7-assembly cores '
             'with several assemblies per type (sodium / constant coolant, '
             'pin model, double duct, simple and six-node regions, update '
             'tolerance); (b) alone vs in-core and swapped-position pairs '
             'compared bitwise at every 100th plane; distinct by label')
    res.trusted('harness/iso.py (object-graph walk, digests)',
                'harness/fields.py', 'spec/Iso.tla')
    res.assume('identical planes in both runs of a pair are enforced with a '
               'user step below every stability limit; bitwise comparison '
               '(crc32 of the arrays)')


META = {
    'text': 'TLC explores all advance orders of a 3-assembly core with '
            'private vs per-type helper objects (the latter must break '
            'ReadOwn) and validates on real 7-assembly cores that no object '
            'written during a sweep is reachable from two assemblies and '
            'that each Assembly.calculate leaves every other assembly\'s '
            'observable state bitwise unchanged; alone / in-core / swapped '
            'run pairs must agree bitwise plane by plane.',
    'note': 'Observable state = temperatures, correlated parameters, '
            'tallies, peaks and the material property values an assembly '
            'reads next. Trusted: harness/iso.py.',
    'technique': 'TLA+ ownership model checked by TLC + TLC trace '
                 'validation of object ownership, step digests and run pairs',
    'design_ref': 'DESIGN.md section 4, C06',
}

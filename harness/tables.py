"""Summary tables (dassh.out) vs. the final fields and the recorder's own
running maxima (C15: "outlet and average temperatures in the summary equal
the final-plane fields"; reported peaks are the maxima)."""
import re

import numpy as np

LAST_MISMATCH = []


def _rows(txt):
    rows = []
    for line in txt.splitlines():
        m = re.match(r'^\s*(\d+)\s+(.*)$', line)
        if m:
            rows.append((int(m.group(1)), m.group(2)))
    return rows


def _nums(s):
    return [float(x) for x in re.findall(r'-?\d+\.\d+(?:[eE][-+]?\d+)?', s)]


def pressure_table(dassh, r):
    """Rows of the printed pressure-drop table: per assembly
    [total, friction, spacer grid, gravity, sum of the region columns] in Pa,
    None for an entry printed as '---'; None if the table cannot be made."""
    nreg = max(len(a.region) for a in r.assemblies)
    try:
        txt = dassh.table.PressureDropTable(nreg).generate(r)
    except BaseException:
        return None
    out = {}
    for i, s_ in _rows(txt):
        tok = s_.split()
        # name, loc (one token like '(1,1)' or two), total, 3 parts, regions
        k = next((j for j, t in enumerate(tok) if re.match(
            r'^-?\d\.\d{4}E[-+]\d+$', t)), None)
        if k is None:
            continue
        vals = []
        for t in tok[k:]:
            vals.append(None if t == '---' else float(t) * 1e6)
        if len(vals) < 4:
            continue
        regs = [v for v in vals[4:] if v is not None]
        out[i] = [vals[0], vals[1], vals[2], vals[3], sum(regs)]
    if sorted(out) != list(range(1, len(r.assemblies) + 1)):
        return None
    return [out[i + 1] for i in range(len(r.assemblies))]


def check_summary(dassh, r, d, track=None, units=None, truth=None):
    """Returns 1 if the coolant and duct summary tables agree with the
    final fields and with independent running maxima (2-decimal print).
    units: the unit system requested in the input (None: SI); expected values
    are converted with the harness's own factors."""
    del LAST_MISMATCH[:]
    from . import unitsys
    if units:
        u = {k: str(v).lower() for k, v in units.items()}
        u.setdefault('length', 'm')
        u.setdefault('temperature', 'k')

        def cT(v):
            return unitsys.to_user(float(v), 'T', u)

        def cL(v):
            return unitsys.to_user(float(v), 'L', u)
    else:
        def cT(v):
            return float(v)
        cL = cT
    ok = True
    try:
        ctab = dassh.table.CoolantTempTable().generate(r, None)
        dtab = dassh.table.DuctTempTable().generate(r)
    except BaseException as e:
        LAST_MISMATCH.append(f'table generation failed: {type(e).__name__}')
        return 0
    tol = 0.0051
    crow = {i: s for i, s in _rows(ctab)}
    for i, a in enumerate(r.assemblies):
        s = crow.get(i + 1)
        if s is None:
            ok = False
            LAST_MISMATCH.append(f'coolant table: no row for asm {i + 1}')
            continue
        nums = _nums(s)
        # ... power, flow rate, bulk outlet, peak outlet, peak total, height
        want_bulk = float(a.avg_coolant_temp)
        want_pk_out = float(np.max(a.region[-1].temp['coolant_int']))
        want_pk, want_ht = track['cool'][i] if track else a._peak['cool']
        # columns after name: power(E), flow(E), bulk, peak out, peak tot, [unc], ht
        vals = nums[2:]
        got_bulk, got_pk_out, got_pk = vals[0], vals[1], vals[2]
        # power and flow rate columns against the input (truth: per assembly
        # power in W and flow in the requested unit, None = not judged)
        if truth:
            for nm, g, w in (('power', nums[0], truth['power'][i]),
                             ('flow rate', nums[1], truth['flow'][i])):
                if w is not None and abs(g - w) > 2e-5 * max(abs(w), 1e-30):
                    ok = False
                    LAST_MISMATCH.append(
                        f'coolant table asm {i + 1} {nm}: printed {g}, '
                        f'input {w:.6g}')
        got_ht = vals[-1]
        for nm, g, w in (('bulk outlet', got_bulk, cT(want_bulk)),
                         ('peak outlet', got_pk_out, cT(want_pk_out)),
                         ('peak total', got_pk, cT(want_pk)),
                         ('peak height', got_ht, cL(want_ht))):
            if abs(g - w) > tol:
                ok = False
                LAST_MISMATCH.append(
                    f'coolant table asm {i + 1} {nm}: printed {g}, '
                    f'field {w:.4f}')
    drows = _rows(dtab)
    per = {}
    for i, s in drows:
        per.setdefault(i, []).append(s)
    for i, a in enumerate(r.assemblies):
        rows = per.get(i + 1, [])
        nd_last = a.region[-1].temp['duct_mw'].shape[0]
        ns = len(a._peak['duct'])
        if len(rows) != nd_last:
            ok = False
            LAST_MISMATCH.append(f'duct table asm {i + 1}: {len(rows)} rows '
                                 f'for {nd_last} ducts')
            continue
        for d_, s in enumerate(rows):
            nums = _nums(s)
            got_pk, got_ht = nums[-2], nums[-1]
            slot = ns - nd_last + d_
            want_pk, want_ht = (track['duct'][i][slot] if track
                                else a._peak['duct'][slot])
            want_pk, want_ht = cT(want_pk), cL(want_ht)
            # the six face averages of this wall at the outlet plane: the
            # cells of the face plus the corner that closes the face before
            # it (for six-cell walls: the two corners bounding the face)
            fld = np.asarray(a.region[-1].temp['duct_mw'][d_], dtype=float)
            nps = len(fld) // 6
            faces = []
            for f_ in range(6):
                own = [fld[f_ * nps + j] for j in range(nps)]
                prev = fld[((f_ - 1) % 6) * nps + nps - 1]
                faces.append(cT(float(np.mean(own + [prev]))))
            got_faces = nums[-8:-2]
            if len(got_faces) != 6 or any(
                    abs(g - w) > tol for g, w in zip(got_faces, faces)):
                ok = False
                LAST_MISMATCH.append(
                    f'duct table asm {i + 1} duct {d_ + 1}: printed face '
                    f'averages {got_faces}, outlet field gives '
                    f'{[round(x, 2) for x in faces]}')
            if abs(got_pk - want_pk) > tol or abs(got_ht - want_ht) > tol:
                ok = False
                LAST_MISMATCH.append(
                    f'duct table asm {i + 1} duct {d_ + 1}: printed peak '
                    f'{got_pk} at {got_ht}, maximum of that duct '
                    f'{want_pk:.4f} at {want_ht:.4f}')
    # peak pin temperature tables: the radial profile of the pin and at the
    # height where each pin temperature location peaks (1-decimal print)
    pins = (track or {}).get('pin')
    if pins:
        keys = [('clad', 'od'), ('clad', 'mw'), ('clad', 'id'),
                ('fuel', 'od'), ('fuel', 'cl')]
        tolp = 0.051
        for ki, (comp, reg) in enumerate(keys):
            try:
                ptab = dassh.table.PeakPinTempTable(comp, reg).generate(r, None)
            except BaseException as e:
                LAST_MISMATCH.append(f'pin table {comp} {reg} failed: '
                                     f'{type(e).__name__}')
                ok = False
                continue
            prow = {i: s_ for i, s_ in _rows(ptab)}
            for i, a in enumerate(r.assemblies):
                prof = pins[i][ki] if pins[i] else None
                if prof is None:
                    continue
                s_ = prow.get(i + 1)
                if s_ is None:
                    ok = False
                    LAST_MISMATCH.append(f'pin table {comp} {reg}: no row '
                                         f'for asm {i + 1}')
                    continue
                tok = s_.replace('|', ' ').split()
                # name, pin, height, power, cool, clad od/mw/id, fuel od/cl
                ncol = {('clad', 'od'): 2, ('clad', 'mw'): 3, ('clad', 'id'): 4,
                        ('fuel', 'od'): 5, ('fuel', 'cl'): 6}[(comp, reg)]
                try:
                    got_pin = int(tok[1])
                    got_ht = float(tok[2])
                    got_t = [float(x) for x in tok[4:4 + ncol]]
                except (ValueError, IndexError):
                    ok = False
                    LAST_MISMATCH.append(f'pin table {comp} {reg} asm {i + 1}: '
                                         f'unreadable row {s_!r}')
                    continue
                want_t = [cT(x) for x in prof[3:3 + ncol]]
                if got_pin != int(prof[2]) or \
                        abs(got_ht - cL(prof[1])) > tolp or \
                        any(abs(g - w) > tolp for g, w in zip(got_t, want_t)):
                    ok = False
                    LAST_MISMATCH.append(
                        f'pin table {comp} {reg} asm {i + 1}: printed pin '
                        f'{got_pin} at {got_ht} {got_t}, peak profile pin '
                        f'{int(prof[2])} at {cL(prof[1]):.3f} '
                        f'{[round(w, 2) for w in want_t]}')
    return int(ok)

"""Step driver and recorders for real DASSH sweeps.

`Recorder` installs run-time wrappers (no source hooks) on the call
boundaries the properties name as observation points:

    Assembly.calculate, Assembly.update_region, Assembly.step0,
    Core.calculate_gap_temperatures, AssemblyPower.get_power_sweep

and hands pre/post snapshots to observer objects which emit trace events.
Wrappers never alter arguments or results and are removed on exit.
"""
import contextlib
import copy
import math

import numpy as np

from .common import q, QMAX, MachineryError

TQ = 2.0 ** -18          # temperature quantum (K)


def qT(t):
    if not math.isfinite(t):
        return QMAX
    return int(round(t / TQ))


class Snapshot:
    """Cheap copy of the mutable state of an assembly's active region."""

    def __init__(self, asm):
        reg = asm.active_region
        self.reg = reg
        self.ridx = asm.active_region_idx
        self.temp = {k: np.array(v, copy=True) for k, v in reg.temp.items()}
        self.ebal = {k: np.array(v, copy=True) for k, v in reg.ebal.items()}
        self.pd = dict(asm._power_delivered)
        self.dp = dict(reg._pressure_drop)
        self.asm_dp = asm._pressure_drop
        self.z = asm._z
        if reg.is_rodded:
            self.htc_int = np.array(reg.coolant_int_params['htc'], copy=True)
            if reg.n_bypass > 0:
                self.htc_byp = np.array(reg.coolant_byp_params['htc'],
                                        copy=True)
        else:
            self.htc = copy.copy(reg.coolant_params.get('htc'))
        self.peak = copy.deepcopy(asm._peak)


class Recorder:
    """Context manager installing the wrappers; observers get callbacks:
       on_step0(asm_index, asm, t_gap, h_gap)
       on_asm(ai, asm, pre, dz, t_gap, h_gap, power, adiabatic)
       on_gap(core, pre_gap_temp, pre_ebal, dz, t_duct)
       on_region(ai, asm, pre, z)
    """

    def __init__(self, dassh, reactor, observers):
        self.dassh = dassh
        self.r = reactor
        self.obs = observers
        self._saved = []
        self._power = {}
        self._depth = 0
        self.k = 0

    def _idx(self, asm):
        for i, a in enumerate(self.r.assemblies):
            if a is asm:
                return i
        return -1

    def __enter__(self):
        d = self.dassh
        rec = self
        A = d.assembly.Assembly
        C = d.core.Core
        P = d.power.AssemblyPower

        o_calc = A.calculate
        o_upd = A.update_region
        o_step0 = A.step0
        o_gap = C.calculate_gap_temperatures
        o_pow = P.get_power_sweep

        def get_power_sweep(self, *a, **kw):
            res = o_pow(self, *a, **kw)
            rec._power[id(self)] = res
            return res

        def calculate(self, dz, t_gap, h_gap, z=None, adiabatic=False,
                      ebal=False):
            ai = rec._idx(self)
            if ai < 0 or rec._depth > 0:
                return o_calc(self, dz, t_gap, h_gap, z, adiabatic, ebal)
            pre = Snapshot(self)
            rec._depth += 1
            try:
                return o_calc(self, dz, t_gap, h_gap, z, adiabatic, ebal)
            finally:
                rec._depth -= 1
                pw = rec._power.get(id(self.power))
                for ob in rec.obs:
                    ob.on_asm(ai, self, pre, dz, np.array(t_gap, copy=True),
                              np.array(h_gap, copy=True), pw, adiabatic)

        def update_region(self, z, t_gap, h_gap, adiabatic=False):
            ai = rec._idx(self)
            if ai < 0:
                return o_upd(self, z, t_gap, h_gap, adiabatic)
            pre = Snapshot(self)
            pre.tmix = self.active_region.avg_coolant_temp
            try:
                return o_upd(self, z, t_gap, h_gap, adiabatic)
            finally:
                for ob in rec.obs:
                    ob.on_region(ai, self, pre, z)

        def step0(self, temp_gap, htc_gap, adiabatic=False):
            ai = rec._idx(self)
            try:
                return o_step0(self, temp_gap, htc_gap, adiabatic)
            finally:
                if ai >= 0:
                    for ob in rec.obs:
                        ob.on_step0(ai, self, np.array(temp_gap, copy=True),
                                    np.array(htc_gap, copy=True), adiabatic)

        def calculate_gap_temperatures(self, dz, asm_duct_temps):
            if self is not rec.r.core:
                return o_gap(self, dz, asm_duct_temps)
            pre_t = np.array(self.coolant_gap_temp, copy=True)
            pre_e = np.array(self.ebal['asm'], copy=True)
            try:
                return o_gap(self, dz, asm_duct_temps)
            finally:
                for ob in rec.obs:
                    ob.on_gap(self, pre_t, pre_e, dz,
                              np.array(asm_duct_temps, copy=True))

        self._saved = [(A, 'calculate', o_calc), (A, 'update_region', o_upd),
                       (A, 'step0', o_step0),
                       (C, 'calculate_gap_temperatures', o_gap),
                       (P, 'get_power_sweep', o_pow)]
        A.calculate = calculate
        A.update_region = update_region
        A.step0 = step0
        C.calculate_gap_temperatures = calculate_gap_temperatures
        P.get_power_sweep = get_power_sweep
        return self

    def __exit__(self, *exc):
        for cls, name, orig in self._saved:
            setattr(cls, name, orig)
        return False

    # ------------------------------------------------------------------
    def sweep(self, max_steps=None):
        """Drive the reactor exactly as temperature_sweep does."""
        r = self.r
        r._data_setup()
        r._data_open()
        self.k = 0
        for ob in self.obs:
            ob.begin(self)
        r.axial_step0()
        n = len(r.z)
        if max_steps is not None:
            n = min(n, max_steps + 1)
        for i in range(1, n):
            self.k = i
            for ob in self.obs:
                ob.begin_step(i, float(r.z[i]), float(r.dz[i - 1]))
            r.axial_step(r.z[i], r.dz[i - 1], i)
            for ob in self.obs:
                ob.end_step(i)
        try:
            r._data_close()
        except (AttributeError, KeyError):
            pass
        for ob in self.obs:
            ob.finish(self)


class Observer:
    def begin(self, rec):
        self.rec = rec

    def begin_step(self, k, z, dz):
        self.k = k
        self.z = z
        self.dz = dz

    def end_step(self, k):
        pass

    def on_step0(self, ai, asm, t_gap, h_gap, adiabatic):
        pass

    def on_asm(self, ai, asm, pre, dz, t_gap, h_gap, power, adiabatic):
        pass

    def on_gap(self, core, pre_t, pre_e, dz, t_duct):
        pass

    def on_region(self, ai, asm, pre, z):
        pass

    def finish(self, rec):
        pass


# ----------------------------------------------------------------------
# physics helpers shared by observers (independent derivations)
# ----------------------------------------------------------------------

def mat_props(mat, T):
    """Evaluate a Material at T without disturbing the instance."""
    m = mat.clone()
    m.update(float(T))
    return m


def enthalpy_rise(mat, T0, T1, const):
    """integral of cp dT between T0 and T1 (J/kg)."""
    if const:
        return mat.heat_capacity * (T1 - T0)
    # 3-point Gauss-Legendre on the material's own cp(T)
    m = mat.clone()
    xs = (-math.sqrt(3.0 / 5.0), 0.0, math.sqrt(3.0 / 5.0))
    ws = (5.0 / 9.0, 8.0 / 9.0, 5.0 / 9.0)
    mid, half = 0.5 * (T0 + T1), 0.5 * (T1 - T0)
    tot = 0.0
    for x, w in zip(xs, ws):
        m.update(mid + half * x)
        tot += w * m.heat_capacity
    return tot * half


def is_const_material(mat):
    m = mat.clone()
    vals = []
    for T in (500.0, 700.0, 900.0):
        m.update(T)
        vals.append((m.heat_capacity, m.density, m.thermal_conductivity,
                     m.viscosity))
    return all(v == vals[0] for v in vals)


def duct_perims(reg):
    """Perimeter (m) of each duct cell for every duct, the length the slab
    model uses on both faces of the wall."""
    if reg.is_rodded:
        typ = reg._duct_idx  # 0 edge, 1 corner
        out = []
        for d in range(reg.n_duct):
            p = np.where(typ == 0, reg.pin_pitch,
                         2 * reg.d['wcorner'][d, 1])
            out.append(np.asarray(p, dtype=float))
        return out
    return [np.full(6, reg.duct_perim / 6.0)]


def sc_mass_flows(reg):
    """Mass flow rate of every coolant node of a region (interior and
    bypass)."""
    if reg.is_rodded:
        m_int = np.array(reg.sc_mfr, dtype=float)
        m_byp = None
        if reg.n_bypass > 0:
            m_byp = (np.asarray(reg.byp_flow_rate)[:, None]
                     * reg.area['coolant_byp']
                     / reg.total_area['coolant_byp'][:, None])
        return m_int, m_byp
    if reg.model == '6node':
        return np.full(6, reg.flow_rate / 6.0), None
    return np.array([reg.flow_rate], dtype=float), None

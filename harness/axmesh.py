"""Axial-mesh construction: replay of enumerated instances through the real
Reactor methods on a light stand-in object, and traces of full Reactor
constructions (spec/Trace_AxialMesh.tla)."""
import itertools
import types

import numpy as np

from .common import limbs

PM = 1e-12
TICK = 1.25e-3      # metres per tick: the 1 cm cap is exactly 8 ticks


def L(x):
    return limbs(float(x), PM)


class Hang(Exception):
    pass


def stub_mesh(dassh, bnds, limit, user, max_calls=3000):
    """Run _setup_overall_axial_mesh_req + _setup_zpts of the real Reactor
    class on a stand-in carrying only the attributes they read."""
    R = dassh.reactor.Reactor
    s = types.SimpleNamespace()
    # boundaries enter as the code receives them (power-mesh bounds in cm,
    # requested planes in m) and are merged by the real method
    half = len(bnds) // 2
    s.power = {'user': [(1, {'zfm': np.array(sorted(bnds)) * 100.0})]}
    s._options = {'axial_plane': list(sorted(bnds)[:half]) or None}
    inp = types.SimpleNamespace(data={'Assembly': {}})
    R._setup_axial_region_bnds(s, inp)
    s.min_dz = {'dz': [limit], 'sc': ['x']}
    s._options['axial_mesh_size'] = user
    s.log = lambda *a, **k: (_ for _ in ()).throw(SystemExit(1)) \
        if a and a[0] == 'error' else None
    calls = [0]

    def check(self, z):
        calls[0] += 1
        if calls[0] > max_calls:
            raise Hang()
        return R._check_dz(self, z)
    s._check_dz = types.MethodType(check, s)
    ev = []
    status = 'done'
    try:
        R._setup_overall_axial_mesh_req(s)
        ev.append({'e': 'Select', 'step': L(s.req_dz)})
        z, dz = R._setup_zpts(s)
        for x in z[1:]:
            ev.append({'e': 'Plane', 'z': L(x)})
    except Hang:
        status = 'hang'
        if not ev:
            ev.append({'e': 'Select', 'step': L(getattr(s, 'req_dz', 0.0))})
    except SystemExit:
        status = 'error'
        if not ev:
            ev.append({'e': 'Select', 'step': L(getattr(s, 'req_dz', 0.0))})
    except BaseException as e:
        status = 'crash'
        if not ev:
            ev.append({'e': 'Select', 'step': L(getattr(s, 'req_dz', 0.0))})
    ev.append({'e': 'End', 'status': status})
    return ev


def trace_for(dassh, bnds, limit, user, label):
    cfg = {'B': [L(b) for b in sorted(set(float(x) for x in np.around(
               np.concatenate([np.array(sorted(bnds)) * 100.0 * 1e-2,
                               np.array(sorted(bnds))]), 12)))],
           'limit': L(limit), 'user': L(user) if user else [0, 0],
           'cap': L(0.01)}
    ev = stub_mesh(dassh, bnds, limit, user)
    return {'label': label, 'cfg': cfg, 'ev': ev}


def lattice(lticks, maxlimit, noise=0.0, sub=(0.5e-6,)):
    """The instance lattice of MC_AxialMesh.Init scaled to metres."""
    out = []
    for r in range(0, lticks):
        for S in itertools.combinations(range(1, lticks), r):
            B = [0.0] + [n * TICK + noise for n in S] + [lticks * TICK]
            for lim in [n * TICK for n in range(1, maxlimit + 1)] + list(sub):
                for usr in [None] + [n * TICK for n in range(1, maxlimit + 1)]:
                    out.append((B, lim, usr))
    return out


def truth_boundaries(case):
    """Axial boundaries stated by the input of a case (SI): core ends, region
    bounds of every assembly type, power-mesh bounds of every assembly,
    requested planes."""
    out = [0.0, float(case['L'])]
    for t in case['types'].values():
        for reg in t.get('AxialRegion', {}).values():
            out += [float(reg['z_lo']), float(reg['z_hi'])]
        out += [float(x) for x in t.get('_rods', [])]
    for p in case.get('power', {}).values():
        out += [float(x) for x in p['z']]
    for pw in case.get('powers', []):
        for p in pw.values():
            out += [float(x) for x in p['z']]
    ap = case.get('setup', {}).get('axial_plane')
    if ap is not None:
        # requested planes outside the core are ignored (with a warning)
        out += [float(x) for x in (ap if isinstance(ap, (list, tuple))
                                   else [ap])
                if 0.0 <= float(x) <= float(case['L'])]
    return sorted(set(out))


def reactor_trace(r, label, truth=None, user=-1):
    """Trace of a fully constructed Reactor.  truth: the boundaries stated
    by the input (one the solver's merged list does not contain, to within
    its 1e-12 rounding, is added: it must still be a plane); user: the
    requested step of the input (-1: take the solver's option)."""
    # the requirement of every assembly evaluated afresh on that assembly
    # (the reactor's own record is not trusted to be per assembly); the gap
    # entry is the reactor's
    import dassh
    lims = []
    for a in r.assemblies:
        for reg in a.region:        # every region of every assembly
            mod = dassh.region_rodded if reg.is_rodded \
                else dassh.region_unrodded
            lims.append(float(mod.calculate_min_dz(
                reg, r.inlet_temp, a._estimated_T_out, r._is_adiabatic)[0]))
    lims += [float(x) for x in r.min_dz['dz'][len(r.assemblies):]]
    B = [float(b) for b in r.axial_bnds]
    for t in (truth or []):
        if min(abs(b - t) for b in B) > 1.5e-12:
            B.append(float(t))
    usr = r._options['axial_mesh_size'] if user == -1 else user
    cfg = {'B': [L(b) for b in sorted(B)],
           'limit': L(min(lims)),
           'user': L(usr) if usr else [0, 0],
           'cap': L(0.01)}
    ev = []
    # the requirement of every un-rodded region against the limit of that
    # region's own coolant update (self weight of every node >= 0), read off
    # the real update by unit perturbations at both ends of the temperature
    # range
    from . import opprobe as _op
    for ai, a in enumerate(r.assemblies):
        for ri, reg in enumerate(a.region):
            if reg.is_rodded:
                # pin bundle and bypass gaps: the per-kind requirement at a
                # temperature against the limit probed from the real update
                # at that temperature
                dzp = max(float(r.req_dz), 1e-6)
                for T in (float(r.inlet_temp), float(a._estimated_T_out)):
                    trs = [_op.bundle_trace(dassh, reg, dzp, T, 'x')]
                    if reg.n_bypass > 0 and np.sum(reg.byp_flow_rate) > 0:
                        trs += _op.probe_bypass(dassh, reg, dzp, T, 'x')
                    for tr_ in trs:
                        for e in tr_['ev']:
                            if e['e'] == 'Limit':
                                ev.append({'e': 'RegionLimit', 'a': ai + 1,
                                           'r': ri, 'code': e['codeLimit'],
                                           'true': e['trueLimit']})
                continue
            code = float(dassh.region_unrodded.calculate_min_dz(
                reg, r.inlet_temp, a._estimated_T_out, r._is_adiabatic)[0])
            tl = float('inf')
            dzp = max(min(float(r.req_dz), code), 1e-6)
            for T in (float(r.inlet_temp), float(a._estimated_T_out)):
                tr_ = _op.probe_unrodded(dassh, reg, dzp, T, 'x',
                                         adiabatic=r._is_adiabatic)
                lim = [e for e in tr_['ev'] if e['e'] == 'Limit'][0]
                tl = min(tl, lim['trueLimit'])
            ev.append({'e': 'RegionLimit', 'a': ai + 1, 'r': ri,
                       'code': _op.qlen(code), 'true': int(tl)})
    # the gap's entry against the limit of the gap update itself: the largest
    # step that keeps the self weight of every gap cell non-negative, read
    # off the real update by unit perturbations (three temperatures of the
    # range the reactor samples)
    if getattr(r.core, 'model', None) == 'flow' and \
            len(r.min_dz['dz']) > len(r.assemblies):
        from . import opprobe
        code = float(r.min_dz['dz'][len(r.assemblies)])
        t_hi = max(float(a._estimated_T_out) for a in r.assemblies)
        t_lo = float(r.inlet_temp)
        tl = float('inf')
        shape = r.core._asm_sc_adj.shape
        n = r.core.n_sc
        dzp = max(float(r.req_dz), 1e-6)
        for T in (t_lo, 0.5 * (t_lo + t_hi), t_hi):
            with opprobe.saved_state(r.core, ['coolant_gap_temp',
                                              'coolant_gap_params']):
                ct = r.core.gap_coolant.temperature
                r.core._update_coolant_gap_params(T)

                def apply(Tv, Tw):
                    r.core.coolant_gap_temp = np.array(Tv, dtype=float)
                    return r.core.coolant_gap_temp + r.core._flow_model(
                        dzp, np.full(shape, float(Tw)))
                W, wall, src = opprobe.probe_matrix(n, 0, apply, base=T)
                tl = min(tl, opprobe.true_limit(W, dzp))
                r.core._update_coolant_gap_params(ct)
        ev.append({'e': 'GapLimit', 'code': opprobe.qlen(code),
                   'true': opprobe.qlen(tl * (1 + 1e-9))})
    ev.append({'e': 'Select', 'step': L(r.req_dz)})
    for x in r.z[1:]:
        ev.append({'e': 'Plane', 'z': L(x)})
    ev.append({'e': 'End', 'status': 'done'})
    return {'label': label, 'cfg': cfg, 'ev': ev}

"""Run a case and return temperature fields at selected planes (used by
the relational checks: scaling, isolation, equivariance, unit invariance)."""
import numpy as np

from . import common, cases, drive
from .common import q, QMAX


class FieldObs(drive.Observer):
    def __init__(self, reactor, every=None, planes=None):
        self.r = reactor
        self.every = every
        self.planes = planes
        self.snap = {}

    def want(self, k):
        n = len(self.r.z) - 1
        if self.planes is not None:
            return k in self.planes or k == n
        if self.every:
            return k % self.every == 0 or k == n
        return k == n or k == max(1, n // 2)

    def end_step(self, k):
        if not self.want(k):
            return
        r = self.r
        s = {'z': float(r.z[k]), 'asm': []}
        for a in r.assemblies:
            reg = a.active_region
            d = {'cool': np.array(reg.temp['coolant_int'], copy=True),
                 'duct': np.array(reg.temp['duct_mw'], copy=True),
                 'surf': np.array(reg.temp['duct_surf'], copy=True),
                 'ridx': a.active_region_idx,
                 'dp': float(a.pressure_drop),
                 'avg': float(reg.avg_coolant_temp)}
            if 'coolant_byp' in reg.temp:
                d['byp'] = np.array(reg.temp['coolant_byp'], copy=True)
            if hasattr(reg, 'pin_temps'):
                d['pins'] = np.array(reg.pin_temps[:, 3:], copy=True)
            s['asm'].append(d)
        if r.core.model is not None:
            s['gap'] = np.array(r.core.coolant_gap_temp, copy=True)
        self.snap[k] = s


def run_fields(dassh, case, d, every=None, planes=None, kw=None,
               max_steps=None):
    inp, r = cases.build(dassh, case, d, **(kw or {}))
    ob = FieldObs(r, every=every, planes=planes)
    with drive.Recorder(dassh, r, [ob]) as rec:
        rec.sweep(max_steps=max_steps)
    return r, ob.snap


def qvec(x, scale):
    return [q(float(v), scale) for v in np.ravel(x)]

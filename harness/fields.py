"""Run a case and return temperature fields at selected planes (used by
the relational checks: scaling, isolation, equivariance, unit invariance)."""
import numpy as np

from . import common, cases, drive
from .common import q, QMAX


class FieldObs(drive.Observer):
    def __init__(self, reactor, every=None, planes=None):
        self.r = reactor
        self.every = every
        self.planes = planes
        self.snap = {}

    def want(self, k):
        n = len(self.r.z) - 1
        if self.planes is not None:
            return k in self.planes or k == n
        if self.every:
            return k % self.every == 0 or k == n
        return k == n or k == max(1, n // 2)

    def end_step(self, k):
        if not self.want(k):
            return
        r = self.r
        s = {'z': float(r.z[k]), 'asm': []}
        for a in r.assemblies:
            reg = a.active_region
            d = {'cool': np.array(reg.temp['coolant_int'], copy=True),
                 'duct': np.array(reg.temp['duct_mw'], copy=True),
                 'surf': np.array(reg.temp['duct_surf'], copy=True),
                 'ridx': a.active_region_idx,
                 'dp': float(a.pressure_drop),
                 'avg': float(reg.avg_coolant_temp)}
            if 'coolant_byp' in reg.temp:
                d['byp'] = np.array(reg.temp['coolant_byp'], copy=True)
            if hasattr(reg, 'pin_temps'):
                d['pins'] = np.array(reg.pin_temps[:, 3:], copy=True)
            s['asm'].append(d)
        if r.core.model is not None:
            s['gap'] = np.array(r.core.coolant_gap_temp, copy=True)
        self.snap[k] = s


def run_fields(dassh, case, d, every=None, planes=None, kw=None,
               max_steps=None):
    inp, r = cases.build(dassh, case, d, **(kw or {}))
    ob = FieldObs(r, every=every, planes=planes)
    with drive.Recorder(dassh, r, [ob]) as rec:
        rec.sweep(max_steps=max_steps)
    return r, ob.snap


def qvec(x, scale):
    return [q(float(v), scale) for v in np.ravel(x)]


def run_fields_isolated(case, d, every=None):
    """run_fields in a fresh interpreter (no state of any earlier run in this
    process - module-level or class-level - can leak into it). Returns
    (z, snapshots)."""
    import json
    import os
    import pickle
    import subprocess
    import sys
    from . import common
    os.makedirs(d, exist_ok=True)
    cj = os.path.join(d, 'case.json')
    out = os.path.join(d, 'fields.pkl')
    with open(cj, 'w') as f:
        json.dump(case, f)
    code = (
        "import sys, json, pickle\n"
        "sys.path.insert(0, %r)\n"
        "import numpy as np\n"
        "from harness import common, fields\n"
        "dassh = common.import_dassh()\n"
        "case = json.load(open(%r))\n"
        "r, s = fields.run_fields(dassh, case, %r, every=%r)\n"
        "pickle.dump((np.asarray(r.z), s), open(%r, 'wb'))\n"
    ) % (str(common.VERIF), cj, d, every, out)
    env = dict(os.environ, DASSH_REPO=str(common.REPO))
    p = subprocess.run([sys.executable, '-c', code], text=True,
                       capture_output=True, timeout=900, env=env)
    if p.returncode != 0 or not os.path.exists(out):
        raise RuntimeError('isolated run failed: ' + p.stderr[-400:])
    with open(out, 'rb') as f:
        return pickle.load(f)

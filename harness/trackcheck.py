"""Record sweeps with the track observer and validate with Trace_Track."""
import copy
import os
from concurrent.futures import ProcessPoolExecutor, ThreadPoolExecutor

import numpy as np

from . import common, cases, drive, trackobs, scenarios
from .scenarios import bundle_type, add_regions, make_core, flow_for

C14_CLAUSES = {'PressurePartsNonNegative', 'FrictionClosedForm',
               'GravityClosedForm', 'OneLossPerSpacerGridInStep',
               'PressureLedgerAdvance', 'TotalIsSumOfPartsAndRegions',
               'EachGridCountedExactlyOnce', 'ReportedTotalIsSumOfSteps',
               'TotalEqualsClosedForm', 'PressureTablePrintsTheLedger',
               'PressureDumpShowsTheLedger',
               'ActiveRegionContainsTheStep',
               'SweepRuns'}
C15_CLAUSES = {'PeakFoldConsistent', 'PeakCoolantIsRunningMaximum',
               'PeakDuctIsRunningMaximumPerDuct', 'PeakPinIsRunningMaximum',
               'PeakPinProfileIsThatOfPeakPin', 'ReportedPeakCoolant',
               'ReportedPeakDuct', 'SummaryTablesMatchFinalFields',
               'SweepRuns'}

PINMODEL = {'clad_material': 'clad_fixed', 'r_frac': [0.0, 0.33333, 0.66667],
            'pin_material': ['oxide1', 'oxide2', 'oxide3']}
PIN_MATS = {'oxide1': {'thermal_conductivity': 20.0},
            'oxide2': {'thermal_conductivity': 18.0},
            'oxide3': {'thermal_conductivity': 16.0},
            'clad_fixed': {'thermal_conductivity': 25.0}}


def with_pins(case):
    case['materials'].update(copy.deepcopy(PIN_MATS))
    for t in case['types'].values():
        if not t.get('use_low_fidelity_model'):
            t['PinModel'] = copy.deepcopy(PINMODEL)
    return case


def table_truth(case, nasm):
    """What the summary must print for power and flow rate, from the input
    as written (flow in the input's own unit); None where the input leaves
    the value to the solver."""
    flow = [None] * nasm
    power = [None] * nasm
    plain = (len(case['assign']) == nasm and
             all(len(a) == 4 for a in case['assign']))
    if plain:
        for i, a in enumerate(case['assign']):
            kw = {k.lower(): v for k, v in a[3].items()}
            if 'flowrate' in kw:
                flow[i] = float(kw['flowrate'])
    if plain and case.get('power') and not case.get('powers') and \
            case.get('total_power') is None and \
            case.get('power_scaling_factor', 1.0) == 1.0:
        from . import scenarios
        truth = case.get('_truth', case)
        for i, a in enumerate(case['assign']):
            aid = scenarios.pos_index(a[1], a[2]) + 1
            if str(aid) in truth['power']:
                power[i] = cases.asm_power_integral(truth, aid)
    return {'flow': flow, 'power': power}


def read_pressure_dump(d, nasm):
    """Per assembly, from pressure_drop.csv: the last dumped row [total,
    friction, grids, gravity] and the row whose total differs most from the
    sum of its parts [total, sum of parts] (Pa); 'unreadable' otherwise."""
    import os
    import numpy as np
    f = os.path.join(d, 'pressure_drop.csv')
    try:
        arr = np.loadtxt(f, delimiter=',', ndmin=2)
        out = []
        for i in range(nasm):
            rows = arr[arr[:, 0] == i]
            if rows.shape[0] == 0 or rows.shape[1] < 7:
                return 'unreadable'
            last = rows[-1]
            dev = np.abs(rows[:, 3] - (rows[:, 4] + rows[:, 5] + rows[:, 6]))
            w = rows[int(np.argmax(dev))]
            out.append([float(last[3]), float(last[4]), float(last[5]),
                        float(last[6]), float(w[3]),
                        float(w[4] + w[5] + w[6])])
        return out
    except BaseException:
        return 'unreadable'


def record(args):
    label, case, opts = args
    dassh = common.import_dassh()
    d = common.workdir('trk-' + label)
    try:
        try:
            inp, r = cases.build(dassh, case, str(d), **opts.get('kw', {}))
            exact = all(drive.is_const_material(a.active_region.coolant)
                        for a in r.assemblies)
            ob = trackobs.TrackObs(r, exact, case=case.get('_truth', case))
            crash = None
            try:
                with drive.Recorder(dassh, r, [ob]) as rec:
                    rec.sweep()
            except BaseException as e:
                crash = {'e': 'Crash', 'exc': type(e).__name__,
                         'msg': str(e)[:160]}
            tables_ok = 1
            tables_msg = []
            if crash is None and opts.get('tables'):
                from . import tables
                trk = {'cool': [(ob.runC[i], None) for i in range(len(r.assemblies))],
                       'duct': ob.runD}
                # heights: the recorder keeps them in the raw events
                hc = {}
                hd = {}
                for e in ob.raw:
                    ai = e['a'] - 1
                    zz = float(r.z[e['k']])
                    if e['cgt']:
                        hc[ai] = zz
                    ns = ob.nslots[ai]
                    for dd, (v, gt) in enumerate(e['dmax']):
                        if gt:
                            hd[(ai, ns - e['nd'] + dd)] = zz
                trk['cool'] = [(ob.runC[i], hc.get(i, 0.0))
                               for i in range(len(r.assemblies))]
                trk['duct'] = [[(ob.runD[i][s_], hd.get((i, s_), 0.0))
                                for s_ in range(ob.nslots[i])]
                               for i in range(len(r.assemblies))]
                trk['pin'] = [ob.profP[i] if ob.haspin[i] else None
                              for i in range(len(r.assemblies))]
                tables_ok = tables.check_summary(
                    dassh, r, str(d), trk,
                    units=case.get('setup', {}).get('Units'),
                    truth=table_truth(case, len(r.assemblies)))
                tables_msg = list(tables.LAST_MISMATCH)
            ptab = None
            if crash is None and opts.get('dptable'):
                from . import tables
                ptab = tables.pressure_table(dassh, r) or 'unreadable'
            pdump = None
            if (crash is None and opts.get('dpdump') and
                    case.get('setup', {}).get('Dump', {}).get('pressure_drop')):
                pdump = read_pressure_dump(str(d), len(r.assemblies))
            cfg, ev = ob.events(tables_ok, ptab, pdump)
            if crash:
                ev.insert(len(ev) - 1, crash)
            totals = [float(a.pressure_drop) for a in r.assemblies]
            return {'label': label, 'cfg': cfg, 'ev': ev,
                    'meta': {'planes': len(r.z) - 1, 'dp': totals,
                             'tables': tables_msg}}
        except BaseException as e:
            return {'label': label,
                    'cfg': {'nasm': 1, 'grids': [[]], 'blo': [[0, 0]],
                            'bhi': [[0, 0]], 'nslots': [1], 'npin': [0],
                            'exact': 0, 'gravity': 0},
                    'ev': [{'e': 'Crash', 'exc': type(e).__name__,
                            'msg': str(e)[:160]}], 'meta': {'planes': 0}}
    finally:
        common.cleanup(d)


def run(labelled, res, focus, opts=None):
    opts = opts or {}
    jobs = [(l, c, opts) for l, c in labelled]
    with ProcessPoolExecutor(max_workers=min(common.NCPU, len(jobs))) as ex:
        traces = list(ex.map(record, jobs))
    nsh = min(common.NCPU, len(traces))
    shards = [traces[i::nsh] for i in range(nsh)]

    def val(item):
        i, sh = item
        return common.tlc_traces('Trace_Track', 'Trace_Track.cfg',
                                 [{'cfg': t['cfg'], 'ev': t['ev']} for t in sh],
                                 tag=f'track{i}')
    with ThreadPoolExecutor(max_workers=nsh) as ex:
        outs = list(ex.map(val, enumerate(shards)))
    case_of = dict(labelled)
    results = []
    for sh, out in zip(shards, outs):
        res.add_tlc(dict(out, ok=True), 'trace validation of fold accumulators')
        res.add_traces(len(sh))
        for tid, (v, l, info) in out['verdicts'].items():
            tr = sh[tid - 1]
            res.add_eval()
            res.distinct(tr['label'], tr['meta']['planes'] > 0)
            clauses = set(c.strip('" ') for c in info.strip('{}').split(',')
                          if c.strip())
            results.append((tr, v, l, clauses))
            if v != 'accept':
                bad = tr['ev'][l - 1] if 0 < l <= len(tr['ev']) else None
                for cl in sorted(clauses & focus):
                    res.violation(f'case={tr["label"]};clause={cl}',
                                  f'recorded sweep rejected (first failing '
                                  f'event {l}): {sorted(clauses)}',
                                  {'label': tr['label'],
                                   'case': case_of.get(tr['label']),
                                   'first_failing_event': bad})
        common.cleanup(out['dir'])
    return results

"""Histories of the real dassh.Orificing object for Trace_Orifice.

An Orificing instance is built by the real constructor from a generated
input (two assembly types, constant-property coolant).  The data that the
expensive stages would have produced (assembly powers, parametric response
tables, previous sweep results) are generated here, as the anchors of C20
prescribe; `_group`, `distribute`, `regroup` and everything they call are the
repository's code.  Observation is by wrapping `_check_new_group` (one call
per grouping decision) and `_estimate_optvar` (one call per redistribution
iteration, its argument being the flows just assigned).
"""
import math
import os

import numpy as np

from . import common, cases, scenarios

SC = 100000          # cut-off quanta per unit
PSCALE = 1.0e4       # W per parameter unit (parameters are small integers)
T_IN = 623.15
CP = cases.CONST_SODIUM['heat_capacity']
FQ = 2 ** 20         # flow quanta in the required total
ITMAX = 1000
KEEP_HEAD, KEEP_TAIL = 40, 20


def make_orificing(dassh, d, spec):
    """spec: ng, cutoff, delta, dpl (MPa or None), t_out, regroup tols."""
    rng = None
    ta = cases.bundle_type(2)
    tb = cases.bundle_type(2, P=0.0066)
    tb['duct_ftf'] = list(ta['duct_ftf'])
    c = scenarios.base_case(L=0.3, coolant='const')
    c['pitch'] = ta['duct_ftf'][-1] + 0.004
    c['types'] = {'ta': ta, 'tb': tb}
    c['assign'] = [('ta', 1, 1, {'flowrate': 1.0})]
    c['power'] = None
    c['total_power'] = None
    c['setup'] = {}
    # a power file is needed by the reader: uniform small power
    z = [0.0, 0.3]
    npin = cases.n_pins(2)
    c['power'] = {'0': {'z': z, 'pins': [[[10.0] for _ in range(npin)]]}}
    o = {'assemblies_to_group': ['ta', 'tb'], 'n_groups': spec['ng'],
         'value_to_optimize': 'peak coolant temp',
         'bulk_coolant_temp': spec.get('t_out', 773.15),
         'group_cutoff': spec['cutoff'],
         'group_cutoff_delta': spec['delta'],
         'regroup_option_tol': spec.get('rtol', 0.05),
         'regroup_improvement_tol': spec.get('itol', 0.05)}
    if spec.get('dpl') is not None:
        o['pressure_drop_limit'] = spec['dpl']
    c['orificing'] = o
    path = cases.write_case(c, d)
    inp = dassh.DASSH_Input(path)
    return dassh.Orificing(inp)


class Observer:
    """Wraps the two observation points of one Orificing instance."""

    def __init__(self, dassh, orf):
        self.orf = orf
        self.calls = []          # (len(group), next, cutoff, result)
        self.iters = []          # flows passed to _estimate_optvar
        cls = type(orf)
        orig_check = cls._check_new_group
        orig_est = orf._estimate_optvar

        def check(group_param, next_param, param_delta):
            r = orig_check(group_param, next_param, param_delta)
            self.calls.append((len(group_param), float(next_param),
                               float(param_delta), bool(r)))
            return r

        def est(mfr, *a, **kw):
            self.iters.append(np.array(mfr, dtype=float).copy())
            return orig_est(mfr, *a, **kw)
        # instance attributes shadow the class ones: nothing global changes
        orf._check_new_group = check
        orf._estimate_optvar = est


def group_events(ob, orf, pw, spec):
    """Run _group on integer parameters pw (id order); events."""
    n = len(pw)
    params = np.array((np.arange(n), np.array(pw, float) * PSCALE)).T
    ob.calls.clear()
    ev = []
    vals = sorted(pw, reverse=True)
    g0 = {'e': 'GStart', 'pw': list(pw), 'vals': vals, 'ng': spec['ng'],
          'sc': SC, 'delta': int(math.floor(spec['delta'] * SC + 0.5)),
          'itmax': ITMAX, 'grp': []}
    ev.append(g0)
    out = None
    try:
        gd = orf._group(params)
        out = 'ok'
    except SystemExit:
        out = 'error'
    # passes: n-1 decisions each
    passes = []
    if n >= 2:
        per = n - 1
        if len(ob.calls) % per:
            raise common.MachineryError('grouping calls not a whole number '
                                        'of passes')
        for k in range(0, len(ob.calls), per):
            cs = ob.calls[k:k + per]
            sizes = [1]
            for (_, _, _, r) in cs:
                if r:
                    sizes.append(1)
                else:
                    sizes[-1] += 1
            cut = cs[0][2]
            if any(c[2] != cut for c in cs):
                raise common.MachineryError('cut-off changed within a pass')
            passes.append((cut, sizes))
    keep = list(range(len(passes)))
    if len(passes) > KEEP_HEAD + KEEP_TAIL:
        keep = (list(range(KEEP_HEAD))
                + list(range(len(passes) - KEEP_TAIL, len(passes))))
    last = -1
    for k in keep:
        cut, sizes = passes[k]
        big = 1 if cut * SC >= 20 * SC else 0
        ev.append({'e': 'Pass', 'cut': int(math.floor(min(cut, 20.0) * SC)),
                   'sizes': sizes, 'skipped': k - last - 1, 'big': big})
        last = k
    e = {'e': 'GEnd', 'out': out, 'grp': [], 'npass': len(passes)}
    if out == 'ok':
        gd = gd[gd[:, 0].argsort()]
        e['grp'] = [int(x) for x in gd[:, 2]]
        orf.group_data = gd
    ev.append(e)
    return ev, out, len(passes)


def group_stop_event(ob, ngrouped, ng):
    """The real grouping of a core stopped with an error: how many passes
    were made and how many groups the last one gave (from the observed
    cut-off decisions)."""
    if ob is None:
        return {'e': 'Crash', 'stage': 'input', 'exc': 'SystemExit',
                'msg': 'input not accepted'}
    per = max(1, ngrouped - 1)
    npass = len(ob.calls) // per if ngrouped >= 2 else 0
    lastn = 0
    if npass:
        lastn = 1 + sum(1 for c in ob.calls[(npass - 1) * per:npass * per]
                        if c[3])
    return {'e': 'GStop', 'npass': npass, 'lastn': lastn, 'ng': ng,
            'itmax': ITMAX, 'whole': int(len(ob.calls) % per == 0)}


def table(power_avg, C, K, n_pts=12, curve=0.0):
    """Layout of Orificing.run_parametric: P/F [MW/(kg/s)], power [W],
    flow [kg/s], dp [Pa], T_opt [K]."""
    d = np.zeros((n_pts, 5))
    d[:, 0] = np.geomspace(0.05, 1.0, n_pts)
    d[:, 1] = power_avg
    d[:, 2] = power_avg / 1e6 / d[:, 0]
    d[:, 3] = C * d[:, 2] ** 1.8
    x = d[:, 0] * 1e6
    d[:, 4] = T_IN + K * x * (1.0 + curve * x / 1e6)
    return d


def flow_limit(tab, dp_pa):
    """Own piecewise-linear inverse of the dp(flow) table: the flow at which
    the tabulated pressure drop equals dp_pa; None if the table never
    reaches it (no constraint inside the table)."""
    rows = sorted((float(r[3]), float(r[2])) for r in tab)   # by dp
    if dp_pa >= rows[-1][0]:
        # above the tabulated range: the tables of this harness follow
        # dp = C * flow**1.8 (table()), so the flow at which the limit is
        # reached is known beyond the last row as well; the code may hold a
        # flow back earlier (it knows the table only), never later
        return rows[-1][1] * (dp_pa / rows[-1][0]) ** (1.0 / 1.8)
    if dp_pa <= rows[0][0]:
        # the limit lies below the tabulated range: what the flow limit is
        # there is not defined by the table (the code clamps to the lowest
        # tabulated flow); not judged - see DESIGN.md 11.7
        return None
    for (d0, f0), (d1, f1) in zip(rows, rows[1:]):
        if d0 <= dp_pa <= d1:
            return f0 + (f1 - f0) * (dp_pa - d0) / (d1 - d0)
    raise common.MachineryError('flow_limit: no bracket')


def fq(x, quantum):
    return int(round(float(x) / quantum))


CLIPQ = 1 << 27


def flow_event(kind, flows, quantum, **kw):
    """DIter / DEnd event: flows in quanta; an iterate far outside the scale
    (the fixed-point loop may pass through flows thousands of times the
    total, of either sign) is clipped to +-2^27 quanta and marked, and the
    sum of the exact flows is carried separately."""
    qs = [fq(x, quantum) for x in flows]
    wild = int(any(abs(v) > CLIPQ for v in qs))
    tot = fq(float(np.sum(flows)), quantum) if len(flows) else 0
    ev = {'e': kind, 'm': [max(-CLIPQ, min(CLIPQ, v)) for v in qs],
          'sum': max(-(1 << 30), min(1 << 30, tot)), 'wild': wild}
    ev.update(kw)
    return ev


def distribute_events(ob, orf, spec, types, tabs, mt_expected, res_prev=None,
                      t_out_prev=None):
    n = len(types)
    grp = [int(x) for x in orf.group_data[:, 2]]
    quantum = mt_expected / FQ
    lim = [0] * n
    if spec.get('dpl') is not None:
        for i in range(n):
            f = flow_limit(tabs[types[i]], spec['dpl'] * 1e6)
            lim[i] = 0 if f is None else max(1, fq(f * (1 + 1e-9), quantum))
    ev = [{'e': 'DStart', 'grp': grp, 'ng': spec['ng'], 'lim': lim,
           'mt': FQ}]
    ob.iters.clear()
    try:
        m, t_est = orf.distribute(res_prev, t_out_prev)
    except SystemExit:
        for it in ob.iters[:30]:
            ev.append(flow_event('DIter', it, quantum))
        ev.append(flow_event('DEnd', [], quantum, out='error'))
        return ev, None
    its = ob.iters
    if res_prev is not None and its:
        pass
    for it in its[-30:]:
        ev.append(flow_event('DIter', it, quantum))
    ev.append(flow_event('DEnd', m, quantum, out='ok'))
    return ev, np.array(m, float)


def previous_results(rng, powers, types, m, Ks, ntime=1, noise=0.03,
                     kfac=None):
    """Synthetic sweep results for flows m, consistent with Q = m cp dT.
    Columns as Orificing._read_dassh_results."""
    rows = []
    n = len(powers)
    for t in range(ntime):
        f = 1.0 if ntime == 1 else (0.9 + 0.2 * t / (ntime - 1))
        for i in range(n):
            p = powers[i] * f
            tb = T_IN + p / (CP * m[i])
            tp = T_IN + Ks[types[i]] * p / m[i] * (1 + noise * rng.uniform(-1, 1)) \
                * (kfac[i] if kfac else 1.0)
            rows.append([t, i, p, m[i], tb, max(tp, tb)])
    res = np.array(rows, float)
    t_out = float(np.sum(res[:, 4] * res[:, 3]) / np.sum(res[:, 3]))
    return res, t_out


def history(args):
    """Worker: one history = grouping, then up to `rounds` distributions
    with optional regrouping in between."""
    label, spec = args
    import random
    dassh = common.import_dassh()
    rng = random.Random(spec['seed'])
    d = common.workdir('orf-' + label)
    ev = []
    info = {'label': label, 'spec': spec}
    try:
        try:
            orf = make_orificing(dassh, str(d), spec)
        except BaseException as e:
            raise common.MachineryError(
                f'orificing input not accepted: {type(e).__name__} {e}')
        ob = Observer(dassh, orf)
        pw = spec['pw']
        n = len(pw)
        try:
            gev, out, npass = group_events(ob, orf, pw, spec)
        except common.MachineryError:
            raise
        except BaseException as e:
            ev.append({'e': 'Crash', 'stage': 'group',
                       'exc': type(e).__name__, 'msg': str(e)[:200]})
            return {'label': label, 'ev': ev, 'info': info}
        ev += gev
        info['group'] = out
        info['npass'] = npass
        if out != 'ok' or not spec.get('dist'):
            return {'label': label, 'ev': ev, 'info': info}
        types = spec['types']
        powers = np.array(pw, float) * PSCALE * spec.get('pmul', 50.0)
        orf._power = np.array((np.arange(n), powers)).T
        orf._power_to_grp = orf._power
        Cs = spec['C']
        Ks = spec['K']
        tabs = []
        for t in (0, 1):
            sel = [powers[i] for i in range(n) if types[i] == t]
            avg = float(np.mean(sel)) if sel else float(np.mean(powers))
            tabs.append(table(avg, Cs[t], Ks[t], curve=spec.get('curve', 0)))
        orf._parametric = {
            'asm_ids': np.array((np.arange(n), types), dtype=int).T,
            'asm_names': ['ta', 'tb'], 'data': tabs}
        t_out = spec.get('t_out', 773.15)
        mt = float(np.sum(powers)) / CP / (t_out - T_IN)
        res_prev = None
        t_prev = None
        for rnd in range(spec.get('rounds', 1)):
            try:
                if rnd >= 1 and spec.get('regroup'):
                    before = [int(x) for x in orf.group_data[:, 2]]
                    orf.regroup(res_prev)
                    after = [int(x) for x in orf.group_data[:, 2]]
                    ev.append({'e': 'Regroup', 'before': before,
                               'after': after, 'ng': spec['ng']})
                    if sorted(set(after)) != list(range(spec['ng'])):
                        break      # already rejected; do not go on
                if res_prev is not None:
                    mexp = float(np.sum(res_prev[res_prev[:, 0] == res_prev[0, 0]][:, 3]))
                    mexp *= (t_prev - T_IN) / (t_out - T_IN)
                else:
                    mexp = mt
                # as Orificing._do_iter does, the bulk outlet temperature of
                # the previous sweep comes from the object's own summary of
                # the results; the expected total uses ours (flow-weighted)
                t_code = t_prev
                if res_prev is not None:
                    t_code = float(orf._summarize_group_data(res_prev)[-1, 0])
                dev, m = distribute_events(ob, orf, spec, types, tabs, mexp,
                                           res_prev, t_code)
            except SystemExit:
                ev.append({'e': 'Crash', 'stage': f'round{rnd}',
                           'exc': 'SystemExit', 'msg': 'regroup aborted'})
                break
            except common.MachineryError:
                raise
            except BaseException as e:
                ev.append({'e': 'Crash', 'stage': f'round{rnd}',
                           'exc': type(e).__name__, 'msg': str(e)[:200]})
                break
            ev += dev
            info.setdefault('dist', []).append('ok' if m is not None
                                               else 'error')
            if m is None:
                break
            if np.any(m <= 0):
                info['nonpositive_flow'] = True
            res_prev, t_prev = previous_results(
                rng, powers, types, m, Ks, ntime=spec.get('ntime', 1),
                noise=spec.get('noise', 0.03), kfac=spec.get('kfac'))
        return {'label': label, 'ev': ev, 'info': info}
    finally:
        common.cleanup(d)


# ----------------------------------------------------------------------
# applying the distributed flows to the core (Orificing._setup_input_orifice)
# ----------------------------------------------------------------------

def apply_history(args):
    """Worker: a real core input in which only some assembly types are
    grouped; the real group_by_power, synthetic group flows, then the input
    the optimiser writes for the orificed sweep.  Events: GEnd-like grouping
    summary + one Apply event (flows found at every position)."""
    label, spec = args
    import random
    dassh = common.import_dassh()
    rng = random.Random(spec['seed'])
    d = common.workdir('orfa-' + label)
    ev = []
    info = {'label': label, 'spec': spec}
    try:
        names = spec['names']            # type per position, 'tc' ungrouped
        n = len(names)
        OF = 0.058
        types = {'ta': cases.fitted_type(2, OF),
                 'tb': cases.fitted_type(2, OF, p2d=1.22),
                 'tc': cases.fitted_type(2, OF, p2d=1.15)}
        types = {k: v for k, v in types.items() if k in names}
        lay = [(r_, p_, names[i]) for i, (r_, p_) in
               enumerate(scenarios.layout_positions(n))]
        npin = cases.n_pins(2)
        powers = [2.0e4 * npin * f for f in spec['pf']]
        c = scenarios.make_core(rng, types, lay, [0.5] * n, gap_model='none',
                                coolant='const', asm_power=powers, L=0.3,
                                ncell=1, power_order=2)
        # the power of every assembly: the integral of its own profile
        ptrue = []
        for i in range(n):
            pw_ = c['power'][str(i + 1)]
            tot = 0.0
            for comp in ('pins', 'duct', 'cool'):
                arr = pw_.get(comp)
                if arr is None:
                    continue
                for ci in range(len(pw_['z']) - 1):
                    for coeffs in arr[ci]:
                        tot += cases.cell_integral(coeffs, pw_['z'][ci],
                                                   pw_['z'][ci + 1])
            ptrue.append(tot)
        objective = spec.get('objective', 'peak coolant temp')
        if objective != 'peak coolant temp':
            for t_ in c['types'].values():
                t_['FuelModel'] = {
                    'gap_thickness': 0.0, 'clad_material': 'ht9',
                    'r_frac': [0.0, 0.33333, 0.66667],
                    'pu_frac': [0.2, 0.2, 0.2], 'zr_frac': [0.1, 0.1, 0.1],
                    'porosity': [0.25, 0.2, 0.15]}
            # one grouped assembly whose pin power, in its bottom cell, has
            # its peak on the cell boundary and a minimum inside the cell
            # (the grouping parameter is the peak of the pin-averaged linear
            # power over the height, wherever it lies)
            gp = [i for i in range(n) if names[i] in ('ta', 'tb')]
            tgt = gp[spec['seed'] % len(gp)]
            pw_ = c['power'][str(tgt + 1)]
            base = max(abs(co[0]) for co in pw_['pins'][0])
            pw_['pins'][0] = [[0.7 * base, -0.9 * base, 2.6 * base]
                              for _ in pw_['pins'][0]]
            ptrue = None
        else:
            # grouping by total power: one grouped assembly with a strongly
            # peaked profile and a somewhat lower total than it would have
            # flat (its place in the order is that of its total)
            gp = [i for i in range(n) if names[i] in ('ta', 'tb')]
            tgt = gp[spec['seed'] % len(gp)]
            pw_ = c['power'][str(tgt + 1)]
            base = max(abs(co[0]) for co in pw_['pins'][0])
            pw_['pins'][0] = [[0.35 * base, 0.0, 6.0 * base]
                              for _ in pw_['pins'][0]]
        t_out = spec.get('t_out', 773.15)
        # the grouping parameter of every assembly from its own profile:
        # total power, or the peak over the height of the pin-averaged
        # linear power (dense sampling of the polynomials)
        gparam = []
        for i in range(n):
            pw_ = c['power'][str(i + 1)]
            if objective == 'peak coolant temp':
                gparam.append(cases.asm_power_integral(c, i + 1))
            else:
                best = 0.0
                for cell in pw_['pins']:
                    avg = np.mean(np.array([list(co) + [0.0] * (3 - len(co))
                                            for co in cell], float), axis=0)
                    zeta = np.linspace(-0.5, 0.5, 4001)
                    best = max(best, float(np.max(
                        sum(avg[k] * zeta ** k for k in range(len(avg))))))
                gparam.append(best)
        ptrue = [cases.asm_power_integral(c, i + 1) for i in range(n)]
        c['orificing'] = {
            'assemblies_to_group': [k for k in ('ta', 'tb') if k in names],
            'n_groups': spec['ng'], 'value_to_optimize': objective,
            'bulk_coolant_temp': t_out, 'group_cutoff': spec.get('cutoff', 0.05),
            'group_cutoff_delta': spec.get('delta', 0.005)}
        path = cases.write_case(c, str(d))
        ob = None
        try:
            inp = dassh.DASSH_Input(path)
            orf = dassh.Orificing(inp)
            ob = Observer(dassh, orf)
            orf.group_by_power()
        except SystemExit:
            # the adaptive sweep gave up: legal only after the iteration
            # limit with the requested count not met
            ev.append(group_stop_event(
                ob, sum(1 for x in names if x in ('ta', 'tb')), spec['ng']))
            info['group'] = 'error'
            return {'label': label, 'ev': ev, 'info': info}
        info['group'] = 'ok'
        gd = orf.group_data
        ids = [int(x) for x in gd[:, 0]]
        grp = [int(x) for x in gd[:, 2]]
        gpos = [p for p in range(n) if names[p] in ('ta', 'tb')]
        # distinct flows per group, the same for all members
        gflow = {g: 0.2 + 0.137 * g + 0.01 * rng.random()
                 for g in sorted(set(grp))}
        m = np.array([gflow[g] for g in grp], float)
        quantum = float(np.sum(m)) / FQ
        try:
            inp2 = orf._setup_input_orifice(m)
            found = []
            for p in range(n):
                a = inp2.data['Assignment']['ByPosition'][p]
                kw = {k.lower(): v for k, v in (a[2] if a else {}).items()}
                found.append(fq(kw['flowrate'], quantum)
                             if 'flowrate' in kw else -1)
        except BaseException as e:
            ev.append({'e': 'Crash', 'stage': 'apply',
                       'exc': type(e).__name__, 'msg': str(e)[:200]})
            return {'label': label, 'ev': ev, 'info': info}
        # an ungrouped assembly is given the flow that brings it to the
        # bulk outlet temperature target
        ngflow = [fq(ptrue[p] / CP / (t_out - T_IN), quantum)
                  if p not in gpos else 0 for p in range(n)]
        gmax = max(gparam) or 1.0
        ev.append({'e': 'Apply', 'ids': ids, 'gpos': gpos, 'grp': grp,
                   # grouping parameter of the k-th grouped assembly (1e6 =
                   # the largest of the core)
                   'gparam': [int(round(gparam[p] / gmax * 1e6))
                              for p in gpos],
                   'ng': spec['ng'], 'm': [fq(x, quantum) for x in m],
                   'found': found, 'ngflow': ngflow,
                   'tol': max(2, FQ // 200000)})
        return {'label': label, 'ev': ev, 'info': info}
    finally:
        common.cleanup(d)


# ----------------------------------------------------------------------
# the real set-up of the response data (Orificing.run_parametric reading
# back response tables) followed by the real distribution
# ----------------------------------------------------------------------

def parametric_history(args):
    """Worker: a real core whose two grouped types interleave in id order;
    real group_by_power, real run_parametric in recycle mode (response
    tables written here, one per type, with different pressure-drop curves),
    real distribute.  The type of every assembly, and with it the flow at
    which that assembly reaches the pressure-drop limit, comes from the
    assignment as written.  Events: grouping summary (Apply-free), DStart /
    DIter / DEnd as in history()."""
    label, spec = args
    import os
    import random
    dassh = common.import_dassh()
    rng = random.Random(spec['seed'])
    d = common.workdir('orfp-' + label)
    ev = []
    info = {'label': label, 'spec': spec}
    try:
        names = spec['names']
        n = len(names)
        OF = 0.058
        types = {'ta': cases.fitted_type(2, OF),
                 'tb': cases.fitted_type(2, OF, p2d=1.22)}
        lay = [(r_, p_, names[i]) for i, (r_, p_) in
               enumerate(scenarios.layout_positions(n))]
        npin = cases.n_pins(2)
        powers = [2.0e4 * npin * f for f in spec['pf']]
        c = scenarios.make_core(rng, types, lay, [0.5] * n, gap_model='none',
                                coolant='const', asm_power=powers, L=0.3,
                                ncell=1, power_order=2)
        ptrue = [cases.asm_power_integral(c, i + 1) for i in range(n)]
        if spec.get('tfac'):
            # several time points: the profile of every assembly scaled by
            # its own factor at each of them; the optimiser works with the
            # time average of the powers
            import copy as _copy
            tps = []
            for fac in spec['tfac']:
                pw = _copy.deepcopy(c['power'])
                for i in range(n):
                    p_ = pw[str(i + 1)]
                    for comp in ('pins', 'duct', 'cool'):
                        if p_.get(comp) is not None:
                            p_[comp] = [[[x * fac[i] for x in co]
                                         for co in cell] for cell in p_[comp]]
                tps.append(pw)
            c['powers'] = tps
            ptrue = [sum(cases.asm_power_integral({'power': pw}, i + 1)
                         for pw in tps) / len(tps) for i in range(n)]
        t_out = spec.get('t_out', 773.15)
        order = spec.get('order', ['ta', 'tb'])
        c['orificing'] = {
            'assemblies_to_group': list(order),
            'n_groups': spec['ng'], 'value_to_optimize': 'peak coolant temp',
            'bulk_coolant_temp': t_out,
            'group_cutoff': spec.get('cutoff', 0.05),
            'group_cutoff_delta': spec.get('delta', 0.005),
            'recycle_results': True}
        if spec.get('dpl') is not None:
            c['orificing']['pressure_drop_limit'] = spec['dpl']
        path = cases.write_case(c, str(d))
        tabs = []
        os.makedirs(str(d / '_parametric'), exist_ok=True)
        for ti, nm in enumerate(order):
            sel = [ptrue[i] for i in range(n) if names[i] == nm]
            tab = table(float(np.mean(sel)), spec['C'][nm], spec['K'][nm],
                        curve=spec.get('curve', 0.0))
            np.savetxt(str(d / '_parametric' / f'data_{nm}.csv'), tab,
                       delimiter=',')
            tabs.append(tab)
        ob = None
        try:
            inp = dassh.DASSH_Input(path)
            orf = dassh.Orificing(inp)
            ob = Observer(dassh, orf)
            stage = 'group'
            orf.group_by_power()
            stage = 'parametric'
            orf.run_parametric()
        except SystemExit:
            if stage == 'group':
                ev.append(group_stop_event(ob, n, spec['ng']))
            else:
                ev.append({'e': 'Crash', 'stage': stage, 'exc': 'SystemExit',
                           'msg': 'run_parametric stopped with an error'})
            info['group'] = 'error'
            return {'label': label, 'ev': ev, 'info': info}
        except BaseException as e:
            ev.append({'e': 'Crash', 'stage': 'parametric',
                       'exc': type(e).__name__, 'msg': str(e)[:200]})
            return {'label': label, 'ev': ev, 'info': info}
        info['group'] = 'ok'
        gd = orf.group_data
        ids = [int(x) for x in gd[:, 0]]
        if sorted(ids) != list(range(n)):
            ev.append({'e': 'Crash', 'stage': 'group', 'exc': 'Partition',
                       'msg': f'assemblies grouped: {ids}'})
            return {'label': label, 'ev': ev, 'info': info}
        # type (index into the requested order) of the assembly in each row
        row_types = [order.index(names[i]) for i in ids]
        mt = float(np.sum(ptrue)) / CP / (t_out - T_IN)
        try:
            dev, m = distribute_events(ob, orf, spec, row_types, tabs, mt)
        except common.MachineryError:
            raise
        except BaseException as e:
            ev.append({'e': 'Crash', 'stage': 'round0',
                       'exc': type(e).__name__, 'msg': str(e)[:200]})
            return {'label': label, 'ev': ev, 'info': info}
        ev += dev
        info['dist'] = ['ok' if m is not None else 'error']
        return {'label': label, 'ev': ev, 'info': info}
    finally:
        common.cleanup(d)

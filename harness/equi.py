"""Hexagonal-symmetry metamorphic pairs (C07)."""
import copy
import math

import numpy as np

from . import common, cases, fields, bundle_struct as bs
from .common import q

S3 = math.sqrt(3.0)
TSCALE = 1024.0


def act_pt(g, p):
    """HexLattice.Act on axial coordinates."""
    k, m = g
    q_, r_ = p
    for _ in range(k % 6):
        q_, r_ = -r_, q_ + r_
    if m == 1:
        q_, r_ = r_, q_
    return (q_, r_)


def act_cell(g, c):
    a, b = act_pt(g, (c[2], c[3]))
    return [c[0], c[1], a, b]


def region_for_type(dassh, t):
    ftf = t['duct_ftf']
    nd = len(ftf) // 2
    dims = (t['pin_pitch'], t['pin_diameter'], t['wire_diameter'],
            t['wire_pitch'], ftf)
    return bs.make_region(dassh, t['num_rings'], dims, nd,
                          wire_dir=t.get('wire_direction', 'clockwise'))


def perms_for_type(dassh, t, g):
    """index permutations (item i of run 1 <-> item pi[i] of run 2) for
    pins, coolant cells and the duct / bypass rings, from geometric keys."""
    rr = region_for_type(dassh, t)
    proj = bs.Projection(rr)
    sc = rr.subchannel
    nc = sc.n_sc['coolant']['total']
    ndc = sc.n_sc['duct']['total']
    pin_index = {tuple(k): i for i, k in enumerate(proj.pin_key)}
    ppin = [pin_index[act_pt(g, k)] for k in proj.pin_key]
    key_index = {tuple(proj.key_of(i)): i for i in range(len(sc.type))}
    pall = [key_index[tuple(act_cell(g, proj.key_of(i)))]
            for i in range(len(sc.type))]
    pcool = pall[:nc]
    rings = []     # per ring rho = 1..2nd-1: permutation within the ring
    for rho in range(2 * rr.n_duct - 1):
        lo = nc + rho * ndc
        rings.append([pall[lo + j] - lo for j in range(ndc)])
    pairs = [[proj.key_of(i), proj.key_of(pall[i])] for i in range(len(sc.type))]
    pin_pairs = [[list(k), list(proj.pin_key[ppin[i]])]
                 for i, k in enumerate(proj.pin_key)]
    return {'pins': ppin, 'cool': pcool, 'rings': rings, 'pairs': pairs,
            'pin_pairs': pin_pairs, 'nd': rr.n_duct, 'g': tuple(g)}


def permute_power(p, perms):
    """power map of the transformed problem: the item at g.c gets what the
    item at c had."""
    out = copy.deepcopy(p)
    for comp, perm in (('pins', perms['pins']), ('cool', perms['cool'])):
        arr = p.get(comp)
        if arr is None:
            continue
        for c in range(len(arr)):
            new = [None] * len(arr[c])
            for i, co in enumerate(arr[c]):
                new[perm[i]] = co
            out[comp][c] = new
    arr = p.get('duct')
    if arr is not None:
        ndc = len(perms['rings'][0])
        for c in range(len(arr)):
            new = [None] * len(arr[c])
            for d in range(perms['nd']):
                ring = perms['rings'][2 * d]
                for j in range(ndc):
                    new[d * ndc + ring[j]] = arr[c][d * ndc + j]
            out['duct'][c] = new
    return out


def perm6(g):
    """permutation of the six corner-centred cells of a low-fidelity region
    (clockwise from the 30-degree corner; the top corner is last)."""
    k, m = g
    out = []
    for j in range(6):
        i = (j - k) % 6
        if m == 1:
            i = 5 - i
        out.append(i)
    return out


def align(field, arr2, perms):
    """arr2 re-indexed so that position i holds run 2's value at g.(cell i)."""
    a = np.asarray(arr2)
    n = a.shape[-1]
    if field == 'pins':
        return a[perms['pins']]
    if field == 'cool':
        if n == len(perms['cool']):
            return a[perms['cool']]
        if n == 6:
            return a[perm6(perms['g'])]
        return a
    ndc = len(perms['rings'][0])
    if n == ndc:
        off = 0 if field == 'duct' else 1
        return np.array([a[d][perms['rings'][2 * d + off]]
                         for d in range(a.shape[0])])
    if n == 6:
        return np.array([a[d][perm6(perms['g'])] for d in range(a.shape[0])])
    return a


def cmp_events(s1, s2, perm_of_asm, asm_map, Tin, what):
    """Cmp events for all stored planes; asm_map[i] = index in run 2 of the
    image of assembly i."""
    ev = []
    for k in sorted(s1):
        if k not in s2:
            ev.append({'e': 'Cmp', 'what': 'SameAxialPlanes', 'tol': 0,
                       'a': [1], 'b': [0]})
            continue
        for i, j in enumerate(asm_map):
            a, b = s1[k]['asm'][i], s2[k]['asm'][j]
            perms = perm_of_asm[i]
            for f in ('cool', 'duct', 'byp', 'pins'):
                if f not in a:
                    continue
                xa = np.ravel(a[f])
                xb = np.ravel(align(f, b[f], perms))
                ev.append({'e': 'Cmp', 'what': what, 'field': f, 'k': k,
                           'asm': i + 1, 'tol': 2,
                           'a': [q(float(v) - Tin, TSCALE) for v in xa],
                           'b': [q(float(v) - Tin, TSCALE) for v in xb]})
    return ev

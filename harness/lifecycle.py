"""Replay of TLC-generated object histories (spec/Lifecycle.tla, finished
behaviours printed by Gen_Lifecycle.cfg) into real Reactor objects.

After every operation the abstract value of every live object and of the
reactor file ("init" / "res") is compared with a digest of the real
object's fields; the two reference digests come from a separately built
(and separately swept) object of the same input."""
import hashlib
import re

import numpy as np

from . import common, cases

_OP = re.compile(r'<<"(\w+)", (\d+), <<([^<>]*)>>, "(\w+)">>')


def parse(output):
    """[[(op, obj, (vals...), fileval), ...], ...] from TLC's output."""
    hists = []
    for txt in common._tuples(output, '"LIFE"'):
        ops = [(m.group(1), int(m.group(2)),
                tuple(v.strip().strip('"') for v in m.group(3).split(',')),
                m.group(4)) for m in _OP.finditer(txt)]
        if ops:
            hists.append(ops)
    return hists


def digest(r):
    h = hashlib.sha1()

    def add(x):
        h.update(np.ascontiguousarray(np.asarray(x, dtype=float)).tobytes())
    add(r.z)
    for a in r.assemblies:
        add([a.pressure_drop, a._peak['cool'][0], a._peak['cool'][1],
             a.z, a.power._step])
        for d_ in a._peak['duct']:
            add(d_)
        for reg in a.region:
            for k in sorted(reg.temp):
                add(reg.temp[k])
            add(reg.pressure_drop)
    if r.core.model is not None:
        add(r.core.coolant_gap_temp)
    return h.hexdigest()


def replay(args):
    """Worker: one case, several histories.  Returns one record per
    history: {'label', 'ops', 'bad': [(step, op, clause, detail)]}."""
    label, case, hists, kw = args
    dassh = common.import_dassh()
    import os
    out = []
    d = common.workdir('life-' + label)
    try:
        # references: a separately built object, before and after its sweep
        inp0, r0 = cases.build(dassh, case, str(d / 'ref'), **kw)
        ref = {'init': digest(r0)}
        r0.temperature_sweep()
        ref['res'] = digest(r0)
        if ref['init'] == ref['res']:
            raise common.MachineryError(
                f'{label}: the sweep does not change the digest')
        for hi, ops in enumerate(hists):
            base = d / f'h{hi}'
            fdir = base / 'file'
            os.makedirs(str(fdir), exist_ok=True)
            path = cases.write_case(case, str(base / 'o1'))
            inp = dassh.DASSH_Input(path)
            objs = {1: dassh.Reactor(inp, **dict(
                dict(path=str(base / 'o1'), write_output=False,
                     calc_energy_balance=True), **kw))}
            bad = []
            for si, (op, o, vals, fval) in enumerate(ops):
                clause = {'Build': 'NewObjectAtInlet',
                          'Save': 'SavingLeavesTheObjectAlone',
                          'Load': 'LoadedIsWhatWasSaved',
                          'Sweep': 'SweptObjectsAgree'}[op]
                try:
                    if op == 'Build':
                        os.makedirs(str(base / f'o{o}'), exist_ok=True)
                        objs[o] = dassh.Reactor(inp, **dict(
                            dict(path=str(base / f'o{o}'),
                                 write_output=False,
                                 calc_energy_balance=True), **kw))
                    elif op == 'Save':
                        objs[o].save(path=str(fdir))
                    elif op == 'Load':
                        objs[o] = dassh.reactor.load(
                            str(fdir / 'dassh_reactor.pkl'))
                    elif op == 'Sweep':
                        objs[o].temperature_sweep()
                except BaseException as e:
                    bad.append((si + 1, op, 'NoUnhandledException',
                                f'{type(e).__name__}: {str(e)[:120]}'))
                    break
                # every live object, then the file (read back through the
                # public loader after it was written)
                for i, v in enumerate(vals):
                    if v == 'none':
                        if (i + 1) in objs:
                            raise common.MachineryError('replay out of step')
                        continue
                    got = digest(objs[i + 1])
                    if got != ref[v]:
                        bad.append((si + 1, op,
                                    clause if i + 1 == o or op == 'Save'
                                    else 'OtherObjectsUntouched',
                                    f'object {i + 1} should hold "{v}"'))
                if op == 'Save':
                    try:
                        got = digest(dassh.reactor.load(
                            str(fdir / 'dassh_reactor.pkl')))
                    except BaseException as e:
                        got = f'{type(e).__name__}'
                    if got != ref[fval]:
                        bad.append((si + 1, op, 'FileHoldsTheObjectSaved',
                                    f'file should hold "{fval}": {got[:40]}'))
                if bad:
                    break
            out.append({'label': f'{label}/h{hi}',
                        'ops': [(op, o) for op, o, _, _ in ops],
                        'nops': len(ops), 'bad': bad})
            del objs
            common.cleanup(base)
        return out
    finally:
        common.cleanup(d)

"""Requested assembly data tables (specification growth beyond the listed
properties, spec/OutData.tla): the fields of the requested assemblies are
sampled at the real planes during the sweep (right after Assembly.calculate,
the state the dump row is written from) and compared by TLC
(spec/Trace_Data.tla) with the tables found on disk after post-processing."""
import glob
import os

import numpy as np

from . import common, cases, drive
from .drive import qT

TICK = 1e-7
PINCOL = {'coolant_pin': 3, 'clad_od': 4, 'clad_mw': 5, 'clad_id': 6,
          'fuel_od': 7, 'fuel_cl': 8}


def tk(x):
    return int(round(float(x) / TICK))


def sample(vals, avg):
    """Bounded-integer digest of a vector: average; first / middle / last
    entry, plain and position-weighted sums."""
    v = np.asarray(vals, dtype=float).ravel()
    n = len(v)
    if n == 0:
        return {'n': 0, 'avg': qT(avg), 'v': [0, 0, 0, 0, 0]}
    w = (np.arange(n) % 7) + 1.0
    return {'n': n, 'avg': qT(avg),
            'v': [qT(v[0]), qT(v[n // 2]), qT(v[-1]),
                  int(round(float(np.sum(v)) * 1024)),
                  int(round(float(np.sum(w * v)) * 128))]}


class FieldObs(drive.Observer):
    """For every request (kind, assembly, height) the digests of that
    assembly's field at the dumped planes that enclose the height: the last
    dumped plane below it and the first one at or above it."""

    def __init__(self, reactor, requests):
        self.r = reactor
        self.req = list(requests)
        self.below = {}
        self.done = set()
        self.ev = []
        self.dumping = True
        orig = reactor._determine_whether_to_dump_data
        ob = self

        def decide(z, dz):
            res = orig(z, dz)
            ob.dumping = bool(res)
            return res
        reactor._determine_whether_to_dump_data = decide

    def digests(self, asm, kind):
        """[(event kind, digest)] of the field the dump row is written from"""
        reg = asm.active_region
        out = []
        if kind == 'coolant_subchannel':
            if reg.is_rodded:
                s = sample(asm.temp_coolant, asm.avg_coolant_int_temp)
            else:
                # low-fidelity plane: the table keeps zeros for the
                # subchannels of the pin bundle, only the average is set
                n = (asm.rodded.subchannel.n_sc['coolant']['total']
                     if asm.has_rodded else 1)
                s = sample(np.zeros(n), asm.avg_coolant_int_temp)
            out.append(('cool', s))
        elif kind == 'duct_mw':
            if reg.is_rodded:
                nd = len(asm.temp_duct_mw)
                for d in range(nd):
                    # the dump carries the averages of the first and the
                    # last duct only
                    avg = (asm.avg_duct_mw_temp[0] if d == 0 else
                           asm.avg_duct_mw_temp[-1] if d == nd - 1 else 0.0)
                    out.append((f'duct{d + 1}',
                                sample(asm.temp_duct_mw[d], avg)))
        elif kind in PINCOL:
            if hasattr(reg, 'pin_model'):
                col = np.array(reg.pin_temps[:, PINCOL[kind]], dtype=float)
                out.append((kind, sample(col, float(np.average(col)))))
        return out

    def on_asm(self, ai, asm, pre, dz, t_gap, h_gap, power, adiabatic):
        if not self.dumping:
            return
        p = float(self.z)
        for qi, (kind, a, z) in enumerate(self.req):
            if a != ai + 1 or qi in self.done:
                continue
            dg = self.digests(asm, kind)
            if p < z:
                self.below[qi] = (p, dg)
                continue
            self.done.add(qi)
            planes = [(p, dg)]
            if p > z and qi in self.below:
                planes.insert(0, self.below[qi])
            for pz, dgs in planes:
                for k, s in dgs:
                    self.ev.append(dict(s, e='Plane', q=qi + 1, kind=k,
                                        a=a, z=tk(pz)))


def read_table(path, pin):
    """-> (heights, {height index: (avg, values)})."""
    with open(path) as f:
        rows = [ln.rstrip('\n').split(',') for ln in f if ln.strip()]
    c0 = 2 if pin else 3
    zs = [float(x) for x in rows[0][c0:]]
    out = {}
    for j, z in enumerate(zs):
        avg = float(rows[1][c0 + j])
        vals = [float(r[c0 + j]) for r in rows[2:]]
        out[j] = (avg, vals)
    return zs, out


def record(args):
    label, case = args
    dassh = common.import_dassh()
    d = common.workdir('outd-' + label)
    try:
        tabs = case['setup']['AssemblyTables']
        requests = []
        for t in tabs.values():
            for a in t['assemblies']:
                for z in t['axial_positions']:
                    requests.append((t['type'], int(a), float(z)))
        ev = []
        try:
            inp, r = cases.build(dassh, case, str(d), write_output=True)
            ob = FieldObs(r, requests)
            with drive.Recorder(dassh, r, [ob]) as rec:
                rec.sweep()
            ev += ob.ev
            r.postprocess()
        except BaseException as e:
            ev.append({'e': 'Crash', 'exc': type(e).__name__,
                       'msg': str(e)[:160]})
            return {'label': label, 'ev': ev}
        for qi, (kind, a, z) in enumerate(requests):
            judged = {e['kind'] for e in ev
                      if e['e'] == 'Plane' and e['q'] == qi + 1}
            pin = kind in PINCOL
            if kind == 'coolant_subchannel':
                want = [('cool', f'temp_coolant_subchannel_a={a}.csv')]
            elif kind == 'duct_mw':
                nd = len(case['types'][r.assemblies[a - 1].name]['duct_ftf']) // 2
                if nd == 1:
                    want = [('duct1', f'temp_duct_mw_a={a}.csv')]
                else:
                    want = [(f'duct{k + 1}',
                             f'temp_duct_mw_a={a}_duct={k + 1}.csv')
                            for k in range(nd)]
            else:
                want = [(kind, f'temp_{kind}_a={a}.csv')]
            for k, fname in want:
                if k not in judged:
                    continue    # planes of a kind this module does not judge
                path = os.path.join(str(d), fname)
                named = 1
                if not os.path.exists(path):
                    # a file that carries the data under another name
                    alt = []
                    if k.startswith('duct') and '_duct=' in fname:
                        alt = [p for p in sorted(glob.glob(os.path.join(
                            str(d), f'temp_duct_mw_a={a}_*')))
                            if p.endswith(f'_duct={k[4:]}.csv')]
                    named = 0
                    if not alt:
                        ev.append({'e': 'Missing', 'q': qi + 1, 'kind': k,
                                   'a': a, 'z': tk(z), 'file': fname})
                        continue
                    path = alt[0]
                zs, tab = read_table(path, pin)
                js = [j for j, zz in enumerate(zs) if abs(tk(zz) - tk(z)) <= 1]
                if not js:
                    ev.append({'e': 'Missing', 'q': qi + 1, 'kind': k,
                               'a': a, 'z': tk(z), 'file': fname})
                    continue
                avg, vals = tab[js[0]]
                ev.append(dict(sample(vals, avg), e='Table', q=qi + 1,
                               kind=k, a=a, z=tk(z), named=named,
                               file=os.path.basename(path)))
        return {'label': label, 'ev': ev}
    finally:
        common.cleanup(d)

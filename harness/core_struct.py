"""Projection of the inter-assembly gap mesh built by dassh.core.Core to
the lattice geometry of spec/CoreGap.tla."""
import itertools
import math
import types

import numpy as np

from .common import q
from . import bundle_struct as bs

S3 = math.sqrt(3.0)
OFTF = 0.12


def stand_in(kind, oftf=OFTF):
    """Minimal assembly object exposing what Core.load reads.
    kind = (n_ring, pitch_class) ; n_ring 0/1 = no pin bundle."""
    n_ring, pclass = kind
    side = oftf / S3
    a = types.SimpleNamespace()
    a.duct_oftf = oftf
    a.has_rodded = n_ring >= 2
    if a.has_rodded:
        n = n_ring - 1
        # pitch classes: finer class = smaller pitch (more corner length)
        p = side / (n + 0.6 + 0.3 * pclass)
        wc = 0.5 * (side - n * p)
        a.rodded = types.SimpleNamespace(
            n_ring=n_ring, pin_pitch=p, d={'wcorner': np.array([[wc * 0.9, wc]])})
    return a


def positions(core):
    """asm index -> axial lattice coordinates via the published asm_map."""
    c = (core.asm_map.shape[0] - 1) // 2
    out = {}
    for (row, col), v in np.ndenumerate(core.asm_map):
        if v > 0:
            out[int(v) - 1] = (int(row - c), int(-(col - c)))
    return out


def pos_list(n_pos):
    """lattice coordinates of spiral position ids 0..n_pos-1 (via a full
    core map)."""
    from . import common
    dassh = common.import_dassh()
    m = dassh.core.map_asm(np.arange(n_pos, dtype=float))
    c = (m.shape[0] - 1) // 2
    out = [None] * n_pos
    for (row, col), v in np.ndenumerate(m):
        if v > 0:
            out[int(v) - 1] = (int(row - c), int(-(col - c)))
    return out


def core_events(dassh, occ_ids, kinds, n_pos, gap_flow=1.0, model='flow',
                area_ref=None, real_asms=None, oftf=OFTF, pitch=None):
    """Build Core(...).load(...) for the occupied spiral ids and return
    (cfg, events, core)."""
    mat = bs.const_material(dassh, 'gapcool')
    lst = np.full(n_pos, np.nan)
    for i in occ_ids:
        lst[i] = i
    asms = real_asms or [stand_in(k, oftf) for k in kinds]
    if pitch is None:
        pitch = asms[0].duct_oftf + 0.004
    ev = []
    try:
        core = dassh.core.Core(lst, pitch, gap_flow, mat,
                               inlet_temperature=623.15, model=model)
        core.load(asms)
    except BaseException as e:
        allpos = pos_list(n_pos)
        cfg = {'pos': [list(allpos[i]) for i in occ_ids],
               'scps': [max(0, k[0] - 1) for k in kinds],
               'pitch': [k[1] for k in kinds]}
        return cfg, [{'e': 'BuildFailed', 'exc': type(e).__name__,
                      'msg': str(e)[:160]}], None
    cfg, ev = describe(core, asms, area_ref)
    return cfg, ev, core


def spiral_id(ring, pos):
    """0-based spiral id of (ring, position), both 1-based."""
    return 0 if ring == 1 else 3 * (ring - 1) * (ring - 2) + pos


def reactor_events(dassh, r, case):
    """Events of the gap mesh of a Reactor built from an input, with the
    outer flat-to-flat and the pitch taken from the input (the largest duct
    value of the assembly types; the reference area from a corner-only mesh
    of the same layout with those dimensions)."""
    oftf = max(max(float(x) for x in t['duct_ftf'])
               for t in case['types'].values())
    pitch = float(case['pitch'])
    occ = sorted(spiral_id(a[1], p) for a in case['assign']
                 for p in range(a[2], (a[4] if len(a) > 4 else a[2]) + 1))
    n_pos = 1
    ring = 1
    while n_pos <= max(occ):
        ring += 1
        n_pos += 6 * (ring - 1)
    cfg0, ev0, core0 = core_events(dassh, occ, [(0, 0)] * len(occ), n_pos,
                                   oftf=oftf, pitch=pitch)
    ref = float(core0.gap_params['total area']) if core0 is not None else None
    cfg, ev = describe(r.core, r.assemblies, ref, oftf_truth=oftf)
    return cfg, ev


def describe(core, asms, area_ref, oftf_truth=None):
    """(cfg, events) of a loaded Core."""
    ev = []
    pos = positions(core)
    scps_of = []
    pclass = []
    for a, asm in enumerate(asms):
        scps_of.append(asm.rodded.n_ring - 1 if asm.has_rodded else 0)
    # pitch classes by rank of the actual pin pitch (smaller = finer)
    pit = sorted(set(round(asm.rodded.pin_pitch, 12) for asm in asms
                     if asm.has_rodded))
    for asm in asms:
        pclass.append(pit.index(round(asm.rodded.pin_pitch, 12))
                      if asm.has_rodded else 0)
    cfg = {'pos': [list(pos[a]) for a in range(len(asms))],
           'scps': scps_of, 'pitch': pclass}
    adj = core._asm_sc_adj
    for a in range(len(asms)):
        ids = [int(x) for x in adj[a] if x > 0]
        ev.append({'e': 'Walk', 'a': a + 1, 'p': list(pos[a]), 'ids': ids,
                   'types': [int(t) for t in core._asm_sc_types[a]][:len(ids)],
                   'scps': [int(x) for x in
                            core._geom_params['sc_per_side'][a]]})
    for i in range(core.n_sc):
        asm_i, loc_i = np.where(adj == i + 1)
        ev.append({'e': 'Cell', 'id': i + 1, 'typ': int(core._sc_types[i]),
                   'adj': [int(x) for x in core._sc_adj[i] if x > 0],
                   'nb': int(len(asm_i))})
    # ---- geometry
    hexp = 6 * (oftf_truth if oftf_truth is not None
                else core.duct_oftf) / S3
    scale = 8 * hexp
    perim = []
    xb_ok = 1
    for a in range(len(asms)):
        n = int(np.count_nonzero(adj[a]))
        perim.append([q(float(np.sum(core.gap_params['asm wp'][a, :n])), scale),
                      q(hexp, scale)])
        xb = core._asm_sc_xbnds[a, :n]
        if not (np.all(np.diff(xb) > 0) and xb[0] > 0 and xb[-1] < hexp):
            xb_ok = 0
    area = float(core.gap_params['total area'])
    ascale = 8 * max(area, area_ref or area)
    # the flow of every cell against (gap flow) x (its share of the area):
    # the total is the gap flow the core was given, not the sum of the cells
    gf = float(core.gap_flow_rate)
    ref = gf if gf > 0 else 1e-9
    split = [[q(min(4.0, float(core._sc_mfr[i]) / ref), 4.0),
              q(float(core.gap_params['area'][i] / area) if gf > 0 else 0.0,
                4.0)]
             for i in range(core.n_sc)]
    L = core.gap_params['L']
    lsym = 1
    for i in range(core.n_sc):
        for jj, j in enumerate(core._sc_adj[i]):
            if j > 0:
                back = [kk for kk, x in enumerate(core._sc_adj[j - 1])
                        if x == i + 1]
                if not back or abs(L[i, jj] - L[j - 1, back[0]]) > 1e-12:
                    lsym = 0
    # a cell shared by two or three assemblies has the same duct-facing
    # width from every side, and an edge cell the smaller of the pin pitches
    # of the assemblies it lies between
    shared_ok = 1
    wp = core.gap_params['asm wp']
    seen = {}
    for a in range(len(asms)):
        n = int(np.count_nonzero(adj[a]))
        for j in range(n):
            seen.setdefault(int(adj[a, j]), []).append(
                (a, float(wp[a, j]), int(core._asm_sc_types[a][j])))
    for cid, lst in seen.items():
        if len(lst) < 2:
            continue
        ws = [w for (_, w, _) in lst]
        # (corner cells face every assembly over that assembly's own corner
        # width; edge cells are the same segment of the shared side)
        if all(t == 0 for (_, _, t) in lst):
            if max(ws) - min(ws) > 1e-12:
                shared_ok = 0
            pits = [asms[a_].rodded.pin_pitch for (a_, _, _) in lst
                    if asms[a_].has_rodded]
            if len(pits) == len(lst) and abs(ws[0] - min(pits)) > 1e-12:
                shared_ok = 0
    ev.append({'e': 'Geom', 'perim': perim, 'area': q(area, ascale),
               'sharedOK': shared_ok,
               'areaRef': q(area_ref if area_ref is not None else area,
                            ascale),
               'split': split, 'tol': 4,
               'positive': int(bool(np.all(core.gap_params['area'] > 0)
                                    and np.all(core.gap_params['wp'] > 0)
                                    and np.all(core.gap_params['de'] > 0))),
               'xb': xb_ok, 'lsym': lsym})
    ev.append({'e': 'Seal', 'nsc': int(core.n_sc)})
    return cfg, ev

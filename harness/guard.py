"""Input-guard driver (C18): single-fault perturbations of valid generated
inputs, the facts of each input as written (for InputGuard.tla) and the
observed outcome of the real reader / set-up / sweep."""
import copy
import logging
import os
import random
import signal

from . import common, cases, scenarios, trackcheck
from .cases import bundle_type, fitted_type

U = 1e-5            # length unit of the facts


def q(x, lim=100000):
    v = int(round(float(x) / U))
    return max(-lim, min(lim, v))


def facts(case, tname, flags):
    """Facts of the input as written (InputGuard.tla, part 1)."""
    t = case['types'][tname]
    regs = []
    for r in t.get('AxialRegion', {}).values():
        regs.append([q(r['z_lo']), q(r['z_hi'])])
    regs.sort()
    nbc, bcval = [], []
    for a in case['assign']:
        kw = {k.lower(): v for k, v in a[3].items()}
        nbc.append(len(kw))
        ok = 1
        for k, v in kw.items():
            if k == 'flowrate':
                ok &= 1 if v > 0 else 0
            elif k == 'outlet_temp':
                ok &= 1 if v > case['inlet'] else 0
            elif k == 'delta_temp':
                ok &= 1 if v > 0 else 0
        bcval.append(ok)
    ms = case.get('setup', {}).get('axial_mesh_size')
    return {
        'n': max(-12, min(12, int(t['num_rings']))),
        'P': q(t['pin_pitch'], 20000), 'D': q(t['pin_diameter'], 20000),
        'Dw': q(t['wire_diameter'], 20000), 'Pw': q(t['wire_pitch']),
        'clad': q(t['clad_thickness'], 20000),
        'ftf': [q(x) for x in t['duct_ftf']],
        'lowfi': 1 if t.get('use_low_fidelity_model') else 0,
        'pitch': q(case['pitch']), 'L': q(case['L']),
        'mesh': 1 if ms is None else (1 if ms > 0 else (0 if ms == 0 else -1)),
        'outer': [q(max(tt['duct_ftf'])) for tt in case['types'].values()],
        'regs': regs, 'nbc': nbc, 'bcval': bcval,
        'names': [1, flags.get('names', 1)],
        'pow': [1, flags.get('pow', 1)],
        'lines': [[int(a[1]), int(a[2]), int(a[4] if len(a) > 4 else a[2])]
                  for a in case['assign']],
    }


class Hang(Exception):
    pass


def _alarm(*a):
    raise Hang()


class _Capture(logging.Handler):
    def __init__(self):
        super().__init__(level=logging.ERROR)
        self.n = 0

    def emit(self, record):
        if record.levelno >= logging.ERROR:
            self.n += 1


def edit_power(path, kind, rng):
    rows = open(path).read().strip().split('\n')
    if kind == 'empty':
        rows = []
    elif kind == 'ragged':
        i = rng.randrange(len(rows))
        rows[i] = rows[i] + ',1.0,2.0'
    elif kind == 'text':
        i = rng.randrange(len(rows))
        parts = rows[i].split(',')
        parts[5] = 'abc'
        rows[i] = ','.join(parts)
    elif kind in ('nan', 'inf', 'neginf'):
        i = rng.randrange(len(rows))
        parts = rows[i].split(',')
        parts[5 + rng.randrange(len(parts) - 5)] = {'nan': 'nan', 'inf': 'inf',
                                                    'neginf': '-inf'}[kind]
        rows[i] = ','.join(parts)
    elif kind == 'few-columns':
        rows = [','.join(r.split(',')[:4]) for r in rows]
    elif kind == 'missing-item':
        # drop one pin row of one cell
        for i, r in enumerate(rows):
            p = r.split(',')
            if p[1] == '1' and p[4] == '2':
                del rows[i]
                break
    elif kind.startswith('count-'):
        # the number of items of one component is wrong in every cell alike
        # (indices stay consistent from cell to cell): one item fewer, one
        # more, or a single lumped item
        _, how, comp = kind.split('-')
        code = {'pins': '1', 'duct': '2', 'cool': '3'}[comp]
        mine = [r for r in rows if r.split(',')[1] == code]
        nmax = max(int(r.split(',')[4]) for r in mine)
        if how == 'less':
            rows = [r for r in rows if not (r.split(',')[1] == code and
                                            int(r.split(',')[4]) == nmax)]
        elif how == 'more':
            extra = []
            for r in mine:
                p = r.split(',')
                if int(p[4]) == nmax:
                    p[4] = str(nmax + 1)
                    extra.append(','.join(p))
            rows = rows + extra
        else:   # lumped
            rows = [r for r in rows if not (r.split(',')[1] == code and
                                            int(r.split(',')[4]) > 1)]
    elif kind.startswith('cells-'):
        # one component subdivided into more axial cells than the others
        # (each component well-formed on its own): the first cell of that
        # component is split in two
        comp = kind.split('-')[1]
        code = {'pins': '1', 'duct': '2', 'cool': '3'}[comp]
        mine = [r for r in rows if r.split(',')[1] == code]
        if mine:
            z0 = min(float(r.split(',')[2]) for r in mine)
            new = []
            for r in rows:
                p = r.split(',')
                if p[1] == code and float(p[2]) == z0:
                    zm = 0.5 * (float(p[2]) + float(p[3]))
                    a = list(p)
                    b = list(p)
                    a[3] = repr(zm)
                    b[2] = repr(zm)
                    new += [','.join(a), ','.join(b)]
                else:
                    new.append(r)
            rows = new
    elif kind.startswith('renumber-'):
        # the right number of items, the same in every cell, but not numbered
        # 1..N: the last item of one component carries the number N + 1 (or
        # the items are numbered from 2)
        _, how, comp = kind.split('-')
        code = {'pins': '1', 'duct': '2', 'cool': '3'}[comp]
        mine = [r for r in rows if r.split(',')[1] == code]
        nmax = max(int(r.split(',')[4]) for r in mine)
        new = []
        for r in rows:
            p = r.split(',')
            if p[1] == code:
                if how == 'last' and int(p[4]) == nmax:
                    p[4] = str(nmax + 1)
                elif how == 'shift':
                    p[4] = str(int(p[4]) + 1)
            new.append(','.join(p))
        rows = new
    elif kind.startswith('overlap-'):
        # one component has two regions that overlap: a second region that
        # covers the upper half of its first cell and ends where that cell
        # ends ('hi': shared upper bound), or covers the lower half and
        # starts where it starts ('lo': shared lower bound)
        _, how, comp = kind.split('-')
        code = {'pins': '1', 'duct': '2', 'cool': '3'}[comp]
        mine = [r for r in rows if r.split(',')[1] == code]
        if mine:
            z0 = min(float(r.split(',')[2]) for r in mine)
            extra = []
            for r in mine:
                p = r.split(',')
                if float(p[2]) == z0:
                    zm = 0.5 * (float(p[2]) + float(p[3]))
                    if how == 'hi':
                        p[2] = repr(zm)
                    else:
                        p[3] = repr(zm)
                    extra.append(','.join(p))
            rows = rows + extra
    elif kind == 'zgap':
        # shift the lower bound of the upper cells upward: a gap
        zs = sorted({float(r.split(',')[2]) for r in rows})
        if len(zs) > 1:
            z1 = zs[1]
            new = []
            for r in rows:
                p = r.split(',')
                if float(p[2]) == z1:
                    p[2] = repr(z1 + 0.02)
                new.append(','.join(p))
            rows = new
    else:
        raise common.MachineryError('unknown power edit ' + kind)
    with open(path, 'w') as f:
        f.write('\n'.join(rows) + ('\n' if rows else ''))


def run_input(args):
    """Worker: one input -> Input event."""
    label, case, tname, meant, flags, pedit, seed, tmo = args
    import warnings
    warnings.filterwarnings('ignore')
    dassh = common.import_dassh()
    rng = random.Random(seed)
    d = common.workdir('g18-' + str(os.getpid()))
    computed = [0]
    A = dassh.assembly.Assembly
    oc = A.calculate

    def calc(self, *a, **k):
        computed[0] += 1
        return oc(self, *a, **k)
    A.calculate = calc
    cap = _Capture()
    root = logging.getLogger('dassh')
    root.addHandler(cap)
    prop = root.propagate
    root.propagate = False
    logging.disable(logging.NOTSET)
    lvl = root.level
    root.setLevel(logging.ERROR)
    signal.signal(signal.SIGALRM, _alarm)
    out, stage, exc = 'run', 'write', ''
    try:
        f = facts(case, tname, flags)
        signal.alarm(tmo)
        try:
            path = cases.write_case(case, str(d))
            if pedit:
                edit_power(os.path.join(str(d), 'power.csv'), pedit, rng)
            stage = 'parse'
            inp = dassh.DASSH_Input(path)
            stage = 'setup'
            r = dassh.Reactor(inp, path=str(d), write_output=True)
            stage = 'sweep'
            r.temperature_sweep()
            r.postprocess()
            out = 'swept'
        except SystemExit:
            out = 'rejected'
        except Hang:
            # a sweep that is merely long is not a hang
            out = 'hang' if stage != 'sweep' else 'slow'
        except common.MachineryError:
            raise
        except BaseException as e:
            out = 'crash'
            exc = f'{type(e).__name__}: {str(e)[:120]}'
        finally:
            signal.alarm(0)
        return {'label': label,
                'ev': [{'e': 'Input', 'f': f, 'out': out,
                        'computed': 1 if computed[0] else 0,
                        'msg': 1 if cap.n else 0, 'meant': list(meant)}],
                'info': {'stage': stage, 'exc': exc, 'out': out}}
    finally:
        A.calculate = oc
        root.removeHandler(cap)
        root.propagate = prop
        root.setLevel(lvl)
        logging.disable(logging.CRITICAL)
        common.cleanup(d)


# ---------------------------------------------------------------------------
L = 0.6


def base_single(rng):
    t = scenarios.add_regions(
        bundle_type(3), L, lower=dict(model='simple', vf_coolant=0.3),
        upper=dict(model='simple', vf_coolant=0.35))
    return scenarios.make_core(rng, {'a1': t}, [(1, 1, 'a1')],
                               [scenarios.flow_for(t)], gap_model='flow',
                               bypass_fraction=0.05), 'a1'


def base_adiabatic(rng):
    """No inter-assembly gap: nothing of the core geometry is built, so the
    reader is the only guard for the duct-against-pitch relations."""
    t = bundle_type(2)
    return scenarios.make_core(rng, {'a1': t}, [(1, 1, 'a1')],
                               [scenarios.flow_for(t)], gap_model='none',
                               bypass_fraction=0.0), 'a1'


def base_rich(rng):
    t = scenarios.add_regions(
        bundle_type(3, nd=2), L,
        lower=dict(model='simple', vf_coolant=0.3, hydraulic_diameter=0.004,
                   epsilon=1e-5),
        upper=dict(model='6node', vf_coolant=0.35))
    t['SpacerGrid'] = {'corr': 'REH', 'axial_positions': [0.3, 0.4],
                       'solidity': 0.2}
    t['bypass_gap_flow_fraction'] = 0.05
    t['htc_params_duct'] = [0.025, 0.8, 0.8, 7.0]
    c = scenarios.make_core(rng, {'a1': t}, [(1, 1, 'a1')],
                            [scenarios.flow_for(t)], gap_model='flow',
                            bypass_fraction=0.05)
    trackcheck.with_pins(c)
    c['types']['a1']['PinModel']['gap_thickness'] = 0.0
    c['setup'].update({'axial_mesh_size': 0.005,
                       'conv_approx_dz_cutoff': 0.01})
    c['core_htc'] = [0.025, 0.8, 0.8, 7.0]
    return c, 'a1'


def base_core(rng):
    OF = 0.060
    A, B = fitted_type(2, OF), fitted_type(3, OF)
    p7 = scenarios.layout_positions(7)
    names = ['B', 'A', 'A', 'B', 'A', 'A', 'A']
    lay = [(r_, p_, names[i]) for i, (r_, p_) in enumerate(p7)]
    flows = [scenarios.flow_for({'A': A, 'B': B}[n], 0.1) for n in names]
    return scenarios.make_core(rng, {'A': A, 'B': B}, lay, flows,
                               gap_model='flow', bypass_fraction=0.03), 'A'


def base_core19(rng):
    """Three rings (19 positions), two types, ring lines written as ranges
    where neighbours share a type."""
    OF = 0.060
    A, B = fitted_type(2, OF), fitted_type(3, OF)
    p19 = scenarios.layout_positions(19)
    names = ['B'] + ['A'] * 6 + ['A', 'B'] * 6
    lay = [(r_, p_, names[i]) for i, (r_, p_) in enumerate(p19)]
    flows = [scenarios.flow_for({'A': A, 'B': B}[n], 0.1) for n in names]
    return scenarios.make_core(rng, {'A': A, 'B': B}, lay, flows,
                               gap_model='no_flow', bypass_fraction=0.0,
                               ncell=1, power_order=0), 'A'


def ring_faults(rng):
    """Assignment lines of a 19-position core that run past the end of
    their ring (or start before it), and the valid core itself."""
    out = []
    for k, (ring, lo, hi) in enumerate(
            [(2, 1, 7), (2, 6, 8), (2, 5, 12), (3, 12, 13), (3, 1, 18),
             (2, 0, 3)]):
        # (a line for ring 1 that names positions 1..2 is accepted and the
        # excess ignored - harmless, not generated; DESIGN.md 11.7)
        c, tn = base_core19(random.Random(rng.randrange(1 << 30)))
        # the line replaces the lines of that ring from `lo` on
        a0 = next(a for a in c['assign'] if a[1] == ring)
        keep = [a for a in c['assign']
                if not (a[1] == ring and a[2] >= max(lo, 1))]
        keep.append((a0[0], ring, lo, dict(a0[3]), hi))
        c['assign'] = keep
        out.append((f'line-r{ring}-{lo}-{hi}#{k}', c, tn,
                    ['PositionOutsideRing'], {}, None))
    c, tn = base_core19(random.Random(rng.randrange(1 << 30)))
    out.append(('valid#0', c, tn, [], {}, None))
    return out


def base_lowfirst(rng):
    """A core whose first listed assembly type is a low-fidelity one (no pin
    bundle is placed for it); the faults go into a pin-bundle type listed
    after it."""
    OF = 0.060
    U = fitted_type(3, OF, use_low_fidelity_model=True,
                    low_fidelity_model='simple')
    A, B = fitted_type(2, OF), fitted_type(3, OF)
    types = {'U': U, 'A': A, 'B': B}      # listing order of the input
    p7 = scenarios.layout_positions(7)
    names = ['U', 'A', 'B', 'A', 'U', 'A', 'B']
    lay = [(r_, p_, names[i]) for i, (r_, p_) in enumerate(p7)]
    flows = [scenarios.flow_for(types[n], 0.1) for n in names]
    return scenarios.make_core(rng, types, lay, flows, gap_model='flow',
                               bypass_fraction=0.03), 'A'


def targeted(rng, base, tier):
    """(label, case, type, meant classes, flags, power edit)."""
    out = []
    reps = 2 if tier == 'quick' else 6

    def add(label, fn, meant, flags=None, pedit=None):
        for k in range(reps):
            c, tn = base(random.Random(rng.randrange(1 << 30)))
            fn(c, c['types'][tn], rng)
            out.append((f'{label}#{k}', c, tn, meant, flags or {}, pedit))

    def pins(c, t, r):
        t['pin_pitch'] = t['pin_pitch'] * r.uniform(1.15, 1.6)
    add('pins-do-not-fit', pins, ['PinsDoNotFit'])

    def wire(c, t, r):
        t['wire_diameter'] = (t['pin_pitch'] - t['pin_diameter']) \
            * r.uniform(1.05, 1.5)
    add('wire-thicker-than-gap', wire, ['WireThickerThanGap'])

    def clad(c, t, r):
        t['clad_thickness'] = t['pin_diameter'] * r.uniform(0.52, 0.9)
    add('clad-thicker-than-radius', clad, ['CladThickerThanRadius'])
    for key in ('pin_pitch', 'pin_diameter', 'clad_thickness', 'num_rings'):
        for nm, mk in (('zero', lambda v: type(v)(0)),
                       ('negative', lambda v: -v)):
            add(f'{key}-{nm}',
                lambda c, t, r, key=key, mk=mk: t.__setitem__(key, mk(t[key])),
                ['NonPositiveDimension'])
    add('wire-pitch-zero', lambda c, t, r: t.__setitem__('wire_pitch', 0.0),
        ['NonPositiveDimension'])
    add('duct-ftf-negative',
        lambda c, t, r: t.__setitem__('duct_ftf', [-x for x in t['duct_ftf']]),
        ['NonPositiveDimension'])
    add('core-length-zero', lambda c, t, r: c.__setitem__('L', 0.0),
        ['NonPositiveDimension'])
    add('assembly-pitch-negative',
        lambda c, t, r: c.__setitem__('pitch', -c['pitch']),
        ['NonPositiveDimension'])
    add('mesh-size-zero',
        lambda c, t, r: c['setup'].__setitem__('axial_mesh_size', 0.0),
        ['NonPositiveDimension'])

    def duct_ge_pitch(c, t, r):
        c['pitch'] = max(tt['duct_ftf'][-1] for tt in c['types'].values()) \
            * r.uniform(0.9, 1.0)
    add('duct-not-smaller-than-pitch', duct_ge_pitch,
        ['DuctAgainstPitchOrWalls'])
    def first_over_pitch(factor):
        def fn(c, t, r):
            # the list need not be ordered: the larger value first, and the
            # pitch equal to it or between the two
            f = t['duct_ftf']
            t['duct_ftf'] = [f[1], f[0]] + f[2:]
            if len(c['types']) == 1 and len(f) == 2:
                c['pitch'] = f[1] * factor
            else:
                c['pitch'] = max(max(tt['duct_ftf'])
                                 for tt in c['types'].values()) * factor
        return fn
    for nm, fac in (('equal', 1.0), ('just-over', 0.9995), ('over', 0.985),
                    ('far-over', 0.93)):
        add('duct-nonlast-entry-' + nm + '-pitch', first_over_pitch(fac),
            ['DuctAgainstPitchOrWalls'])
    add('duct-wall-zero-thickness',
        lambda c, t, r: t.__setitem__('duct_ftf', [t['duct_ftf'][1]] * 2
                                      + t['duct_ftf'][2:]),
        ['DuctAgainstPitchOrWalls'])
    add('duct-ftf-odd-count',
        lambda c, t, r: t.__setitem__('duct_ftf', t['duct_ftf'][:-1]
                                      if len(t['duct_ftf']) > 2 else
                                      t['duct_ftf'] + [t['duct_ftf'][-1]
                                                       + 0.001]),
        [])       # count fact is judged by the spec

    def regions(kind):
        def fn(c, t, r):
            ar = t.setdefault('AxialRegion', {})
            lo = dict(model='simple', vf_coolant=0.3)
            a = r.uniform(0.2, 0.3)
            b = r.uniform(0.35, 0.45)
            if kind == 'overlap-no-gap':
                ar.clear()
                ar['lower_refl'] = dict(lo, z_lo=0.0, z_hi=round(b, 4))
                ar['upper_refl'] = dict(lo, z_lo=round(a, 4), z_hi=L)
            elif kind == 'overlap-with-gap':
                ar.clear()
                ar['r1'] = dict(lo, z_lo=0.0, z_hi=0.15)
                ar['r2'] = dict(lo, z_lo=0.1, z_hi=round(a, 4))
            elif kind == 'cover-everything':
                ar.clear()
                ar['lower_refl'] = dict(lo, z_lo=0.0, z_hi=round(a, 4))
                ar['upper_refl'] = dict(lo, z_lo=round(a, 4), z_hi=L)
            elif kind == 'inverted':
                ar.clear()
                ar['lower_refl'] = dict(lo, z_lo=round(a, 4), z_hi=0.0)
            elif kind == 'two-bundles':
                ar.clear()
                ar['r1'] = dict(lo, z_lo=0.1, z_hi=0.2)
                ar['r2'] = dict(lo, z_lo=round(b, 4), z_hi=L)
            elif kind == 'beyond-core':
                ar.clear()
                ar['upper_refl'] = dict(lo, z_lo=round(b, 4), z_hi=L + 0.1)
            elif kind == 'zero-height':
                ar.clear()
                ar['upper_refl'] = dict(lo, z_lo=L, z_hi=L)
            t.pop('_rods', None)
        return fn
    for kind in ('overlap-no-gap', 'overlap-with-gap', 'cover-everything',
                 'inverted', 'two-bundles', 'beyond-core', 'zero-height'):
        add('regions-' + kind, regions(kind),
            ['AxialRegionsOverlapOrInverted'])
    add('bc-missing',
        lambda c, t, r: c.__setitem__('assign', [
            (a[0], a[1], a[2], {}) for a in c['assign']]),
        ['BoundaryCondition'])
    add('bc-two',
        lambda c, t, r: c.__setitem__('assign', [
            (a[0], a[1], a[2], dict(a[3], outlet_temp=800.0))
            for a in c['assign']]), ['BoundaryCondition'])
    add('bc-flow-zero',
        lambda c, t, r: c.__setitem__('assign', [
            (a[0], a[1], a[2], {'flowrate': 0.0}) for a in c['assign']]),
        ['BoundaryCondition'])
    add('bc-flow-negative',
        lambda c, t, r: c.__setitem__('assign', [
            (a[0], a[1], a[2], {'flowrate': -1.0}) for a in c['assign']]),
        ['BoundaryCondition'])
    add('bc-outlet-below-inlet',
        lambda c, t, r: c.__setitem__('assign', [
            (a[0], a[1], a[2], {'outlet_temp': c['inlet'] - 50.0})
            for a in c['assign']]), ['BoundaryCondition'])
    add('bc-delta-negative',
        lambda c, t, r: c.__setitem__('assign', [
            (a[0], a[1], a[2], {'delta_temp': -50.0})
            for a in c['assign']]), ['BoundaryCondition'])
    if len(base(random.Random(1))[0]['assign']) > 1:
        # the same faults at one later position only (the first positions
        # of every assembly type stay valid)
        def later(kwf):
            def fn(c, t, r):
                i = len(c['assign']) - 1 - r.randrange(2)
                a = c['assign'][i]
                c['assign'][i] = (a[0], a[1], a[2], kwf(a[3], c))
            return fn
        for nm, kwf in (
                ('missing', lambda kw, c: {}),
                ('two', lambda kw, c: dict(kw, outlet_temp=800.0)),
                ('flow-zero', lambda kw, c: {'flowrate': 0.0}),
                ('flow-negative', lambda kw, c: {'flowrate': -1.0}),
                ('outlet-below-inlet',
                 lambda kw, c: {'outlet_temp': c['inlet'] - 50.0}),
                ('delta-negative', lambda kw, c: {'delta_temp': -50.0})):
            add('bc-' + nm + '-at-later-position', later(kwf),
                ['BoundaryCondition'])
    unknown = {'names': 0}
    add('unknown-coolant',
        lambda c, t, r: c.__setitem__('coolant', 'unobtainium'),
        ['UnknownMaterialOrCorrelation'], unknown)
    add('unknown-duct-material',
        lambda c, t, r: t.__setitem__('duct_material', 'unobtainium'),
        ['UnknownMaterialOrCorrelation'], unknown)
    for key in ('corr_friction', 'corr_flowsplit', 'corr_mixing',
                'corr_nusselt'):
        add('unknown-' + key,
            lambda c, t, r, key=key: t.__setitem__(key, 'XYZ'),
            ['UnknownMaterialOrCorrelation'], unknown)

    def regmodel(c, t, r):
        ar = t.setdefault('AxialRegion', {})
        if not ar:
            ar['lower_refl'] = dict(model='fancy', vf_coolant=0.3, z_lo=0.0,
                                    z_hi=0.15)
        else:
            next(iter(ar.values()))['model'] = 'fancy'
    add('unknown-region-model', regmodel,
        ['UnknownMaterialOrCorrelation'], unknown)

    # an assignment that names a type which is not defined: a made-up name,
    # and the name of a defined type in another letter case (type names are
    # case-sensitive everywhere else)
    def assign_unknown(c, t, r):
        a = list(c['assign'][-1])
        a[0] = 'nosuchtype'
        c['assign'][-1] = a

    def assign_case(c, t, r):
        a = list(c['assign'][-1])
        a[0] = a[0].swapcase()
        c['assign'][-1] = a
    add('assignment-names-undefined-type', assign_unknown,
        ['UnknownMaterialOrCorrelation'], unknown)
    add('assignment-names-type-in-other-case', assign_case,
        ['UnknownMaterialOrCorrelation'], unknown)
    badpow = {'pow': 0}

    def negpow(c, t, r):
        for p in c['power'].values():
            for cell in p['pins']:
                for row in cell:
                    row[0] = -abs(row[0]) - 1000.0
    add('power-negative', negpow, ['PowerProfile'], badpow)
    # a negative requested core power turns every (valid) profile negative
    add('total-power-negative',
        lambda c, t, r: c.__setitem__('total_power', -2.0e4),
        ['PowerProfile'], badpow)
    add('power-scaling-negative',
        lambda c, t, r: c.__setitem__('power_scaling_factor', -0.5),
        ['PowerProfile'], badpow)
    add('power-z-inverted',
        lambda c, t, r: [p.__setitem__('z', p['z'][::-1])
                         for p in c['power'].values()],
        ['PowerProfile'], badpow)
    add('power-z-short',
        lambda c, t, r: [p.__setitem__('z', [x * 0.8 for x in p['z']])
                         for p in c['power'].values()],
        ['PowerProfile'], badpow)
    for ed in ('empty', 'ragged', 'text', 'few-columns', 'missing-item',
               'zgap', 'nan', 'inf', 'neginf',
               'count-less-pins', 'count-less-duct', 'count-less-cool',
               'count-more-pins', 'count-more-duct', 'count-more-cool',
               'count-lumped-cool', 'count-lumped-duct',
               'cells-pins', 'cells-duct', 'cells-cool',
               'overlap-hi-pins', 'overlap-hi-duct', 'overlap-hi-cool',
               'overlap-lo-pins', 'overlap-lo-cool',
               'renumber-last-pins', 'renumber-shift-pins',
               'renumber-last-duct', 'renumber-last-cool'):
        add('power-' + ed, lambda c, t, r: None, ['PowerProfile'], badpow,
            pedit=ed)
    # overlapping regions of one component in a profile with one power cell
    # and with three (the bounds of the other regions are then what the
    # reader can compare the overlapping one with)
    def one_cell(c, t, r):
        for p in c['power'].values():
            p['z'] = [p['z'][0], p['z'][-1]]
            for comp in ('pins', 'duct', 'cool'):
                if p.get(comp) is not None:
                    p[comp] = p[comp][:1]

    def three_cells(c, t, r):
        for p in c['power'].values():
            z0, z1 = p['z'][0], p['z'][-1]
            p['z'] = [z0, z0 + (z1 - z0) / 3, z0 + 2 * (z1 - z0) / 3, z1]
            for comp in ('pins', 'duct', 'cool'):
                if p.get(comp) is not None:
                    cells = list(p[comp])
                    p[comp] = (cells + [copy.deepcopy(cells[-1])] * 3)[:3]
    for ed in ('overlap-hi-pins', 'overlap-hi-duct', 'overlap-hi-cool',
               'overlap-lo-pins'):
        add('power-one-cell-' + ed, one_cell, ['PowerProfile'], badpow,
            pedit=ed)
        add('power-three-cells-' + ed, three_cells, ['PowerProfile'], badpow,
            pedit=ed)
    if len(base(random.Random(1))[0]['types']) > 1:
        def unequal(c, t, r):
            t['duct_ftf'] = [x - 0.001 for x in t['duct_ftf']]
        add('unequal-outer-ducts', unequal, ['UnequalOuterDucts'])

        # the duct values may be listed in any order (inner / outer is by
        # magnitude): only the outermost value differs, listed first
        def unequal_desc(c, t, r):
            asc = sorted(t['duct_ftf'])
            asc[-1] -= 0.0008
            t['duct_ftf'] = asc
            c['ftf_listing'] = 'desc'
        add('unequal-outer-ducts-listed-descending', unequal_desc,
            ['UnequalOuterDucts'])
    return out


def numeric_paths(o, p=()):
    if isinstance(o, dict):
        for k, v in o.items():
            if str(k).startswith('_'):
                continue
            yield from numeric_paths(v, p + (k,))
    elif isinstance(o, bool):
        return
    elif isinstance(o, (int, float)):
        yield p
    elif isinstance(o, list) and o and all(
            isinstance(x, (int, float)) and not isinstance(x, bool)
            for x in o):
        for i in range(len(o)):
            yield p + (i,)


def getp(o, p):
    for k in p:
        o = o[k]
    return o


def setp(o, p, v):
    for k in p[:-1]:
        o = o[k]
    o[p[-1]] = v


def generic(rng, base, tier):
    """Every numeric key of the case set to zero, negated and enlarged."""
    out = []
    c0, tn = base(random.Random(rng.randrange(1 << 30)))
    for p in numeric_paths(c0):
        if p[0] in ('power', 'assign'):
            continue
        v = getp(c0, p)
        for nm, nv in (('zero', type(v)(0)), ('negative', -v if v else -1.0),
                       ('x1000', v * 1000 if v else 1000.0)):
            if nm == 'x1000' and p[-1] in ('num_rings', 'L'):
                continue      # valid but enormous problems
            c = copy.deepcopy(c0)
            setp(c, p, nv)
            out.append(('key:' + '/'.join(str(x) for x in p) + ':' + nm, c,
                        tn, [], {}, None))
    return out

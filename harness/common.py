"""Shared machinery for the DASSH TLA+ verification harness.

* Evidence writer (EVIDENCE.schema.json)
* TLC runner for model checking (MC_*.cfg) and batched trace validation
* known-findings handling
* float -> bounded-integer projection (quanta)
* scratch directories under /verif/.work

Exit codes used by bin/check: 0 held, 1 violation (VIOLATION line), 2 machinery.
"""
import json
import math
import os
import re
import shutil
import subprocess
import sys
import time
from pathlib import Path

VERIF = Path(__file__).resolve().parent.parent
REPO = Path(os.environ.get('DASSH_REPO', '/repo'))
SPEC = VERIF / 'spec'
# mutation runs (bin/mutest) must not overwrite the evidence of the real tree
EVID = Path(os.environ['VERIF_EVIDENCE_DIR']) if os.environ.get('VERIF_EVIDENCE_DIR') \
    else VERIF / 'evidence'
WORK = VERIF / '.work'
TLA_CP = ('/opt/veriftools/tla/tla2tools.jar:'
          '/opt/veriftools/tla/CommunityModules-deps.jar')
NCPU = min(16, os.cpu_count() or 1)


class MachineryError(Exception):
    """Raised when the harness itself (not the code under test) fails."""


def seed():
    try:
        return int(os.environ.get('VERIF_SEED', '0'))
    except ValueError:
        return 0


def workdir(tag):
    d = WORK / f'{tag}-{os.getpid()}'
    if d.exists():
        shutil.rmtree(d)
    d.mkdir(parents=True)
    return d


def cleanup(d):
    shutil.rmtree(d, ignore_errors=True)


# ----------------------------------------------------------------------
# Projection: floats -> bounded integers
# ----------------------------------------------------------------------

QBITS = 30
QMAX = 1 << QBITS


def q(x, scale):
    """Quantise x to an integer count of quanta of size scale/2^30.

    |x| must be <= scale (values are clipped to +-2^30 and the clip is
    visible to TLC because the contract then fails)."""
    if scale <= 0 or not math.isfinite(scale):
        raise MachineryError(f'bad scale {scale}')
    if not math.isfinite(x):
        return QMAX  # sentinel: non-finite values never satisfy a contract
    v = x / scale * QMAX
    if v > QMAX:
        return QMAX
    if v < -QMAX:
        return -QMAX
    return int(round(v))


def qs(xs, scale):
    return [q(float(x), scale) for x in xs]


def limbs(x, tick=1e-12):
    """A length as an exact count of ticks, split in two limbs base 10^6
    (TLC integers are 32 bit)."""
    n = int(round(x / tick))
    sign = -1 if n < 0 else 1
    n = abs(n)
    return [sign * (n // 1000000), sign * (n % 1000000)]


# ----------------------------------------------------------------------
# TLC
# ----------------------------------------------------------------------

_STATS = re.compile(r'(\d+) states generated, (\d+) distinct states found')


def _java(args, cwd, env=None, timeout=3600, extra_java=()):
    e = dict(os.environ)
    e.pop('JAVA_TOOL_OPTIONS', None)
    if env:
        e.update(env)
    gc = ['-XX:+UseParallelGC']
    if '-workers' in args and args[list(args).index('-workers') + 1] in ('1', '2'):
        # many single-worker JVMs run side by side: keep each one small
        gc = ['-XX:+UseSerialGC', '-XX:ActiveProcessorCount=2', '-Xmx3g']
    cmd = (['java'] + gc + ['-Xss16m'] + list(extra_java)
           + ['-cp', TLA_CP, 'tlc2.TLC'] + list(args))
    try:
        p = subprocess.run(cmd, cwd=str(cwd), env=e, text=True,
                           stdout=subprocess.PIPE, stderr=subprocess.STDOUT,
                           timeout=timeout)
    except subprocess.TimeoutExpired as ex:
        raise MachineryError(f'TLC timed out: {" ".join(cmd)}') from ex
    return p.returncode, p.stdout


def tlc_model(module, cfg, workers=None, env=None, timeout=3600,
              coverage=False, simulate=None, depth=None, extra=()):
    """Run TLC on spec/<module>.tla with spec/<cfg>. Returns a dict with
    ok / states / distinct / violated / output."""
    meta = workdir('tlc-' + cfg.replace('.', '_'))
    args = ['-workers', str(workers or NCPU), '-metadir', str(meta),
            '-noGenerateSpecTE', '-config', cfg]
    if coverage:
        args += ['-coverage', '1']
    if simulate:
        args += ['-simulate', simulate]
    if depth:
        args += ['-depth', str(depth)]
    args += list(extra)
    args += [module]
    t0 = time.time()
    try:
        rc, out = _java(args, SPEC, env=env, timeout=timeout)
    finally:
        cleanup(meta)
    res = {'module': module, 'cfg': cfg, 'rc': rc, 'output': out,
           'wall_s': time.time() - t0, 'states': 0, 'distinct': 0}
    m = None
    for m in _STATS.finditer(out):
        pass
    if m:
        res['states'] = int(m.group(1))
        res['distinct'] = int(m.group(2))
    res['violated'] = None
    mv = re.search(r'Error: Invariant (\S+) is violated', out)
    if mv:
        res['violated'] = mv.group(1)
    mv = re.search(r'Error: Action property (\S+) is violated', out)
    if mv:
        res['violated'] = mv.group(1)
    mv = re.search(r'Temporal property (\S+) was violated', out)
    if mv:
        res['violated'] = res['violated'] or mv.group(1)
    if 'Temporal properties were violated' in out:
        res['violated'] = res['violated'] or 'temporal'
    if 'Error: Deadlock reached' in out:
        res['violated'] = res['violated'] or 'deadlock'
    done = ('Model checking completed. No error has been found' in out
            or (simulate is not None and rc == 0))
    res['ok'] = bool(done and res['violated'] is None and rc == 0)
    if not res['ok'] and res['violated'] is None:
        # parse errors, evaluation errors, assertion failures
        res['error'] = out[-3000:]
    return res


def require_ok(res, what=None):
    """A design-level model check that must pass; failure of the *model*
    on the unchanged tree is a machinery error, not a code violation."""
    if not res['ok']:
        raise MachineryError(
            f'TLC {res["module"]}/{res["cfg"]} failed ({what or ""}): '
            f'violated={res.get("violated")}\n{res["output"][-2500:]}')
    return res


def require_violation(res, name=None):
    """A Neg_* configuration must produce a counterexample."""
    if res['ok'] or res['violated'] is None:
        raise MachineryError(
            f'negative config {res["cfg"]} did not fail as required:\n'
            f'{res["output"][-2000:]}')
    if name and res['violated'] != name:
        raise MachineryError(
            f'negative config {res["cfg"]} violated {res["violated"]}, '
            f'expected {name}')
    return res


_VERDICT = re.compile(r'<<"VERDICT", (-?\d+), "(\w+)", (-?\d+), (.*)>>\s*$')


def _tuples(out, head):
    """Top-level TLA+ tuples << head, ... >> printed by PrintT, possibly
    pretty-printed over several lines; returned whitespace-normalised."""
    res = []
    i = 0
    while True:
        i = out.find('<<', i)
        if i < 0:
            break
        j = i + 2
        while j < len(out) and out[j] in ' \n':
            j += 1
        if not out.startswith(head, j):
            i += 2
            continue
        depth = 0
        k = i
        while k < len(out):
            if out.startswith('<<', k):
                depth += 1
                k += 2
                continue
            if out.startswith('>>', k):
                depth -= 1
                k += 2
                if depth == 0:
                    break
                continue
            k += 1
        txt = ' '.join(out[i:k].split())
        txt = txt.replace('<< ', '<<').replace(' >>', '>>')
        txt = txt.replace('{ ', '{').replace(' }', '}')
        res.append(txt)
        i = k
    return res


def tlc_traces(module, cfg, traces, env=None, timeout=3600, tag=None):
    """Validate a batch of traces (list of dicts, each with 'ev' list)
    against spec/<module>.tla. Each trace gets a total verdict printed by
    the trace spec as <<"VERDICT", tid, "accept"|"reject", l, info>>.

    Returns dict(states, distinct, verdicts={tid: (verdict, l, info)},
    output)."""
    d = workdir('tr-' + (tag or module))
    f = d / 'traces.ndjson'
    with open(f, 'w') as fh:
        for t in traces:
            fh.write(json.dumps(t, separators=(',', ':')) + '\n')
    e = {'TRACE_FILE': str(f)}
    if env:
        e.update(env)
    args = ['-workers', '1', '-metadir', str(d / 'meta'),
            '-noGenerateSpecTE', '-deadlock', '-config', cfg, module]
    t0 = time.time()
    try:
        rc, out = _java(args, SPEC, env=e, timeout=timeout)
    finally:
        pass
    res = {'module': module, 'cfg': cfg, 'rc': rc, 'output': out,
           'wall_s': time.time() - t0, 'states': 0, 'distinct': 0,
           'verdicts': {}, 'dir': d, 'file': f}
    m = None
    for m in _STATS.finditer(out):
        pass
    if m:
        res['states'] = int(m.group(1))
        res['distinct'] = int(m.group(2))
    for txt in _tuples(out, '"VERDICT"'):
        mv = _VERDICT.match(txt)
        if mv:
            res['verdicts'][int(mv.group(1))] = (
                mv.group(2), int(mv.group(3)), mv.group(4))
    complete = 'Model checking completed. No error has been found' in out
    if not complete:
        cleanup(d)
        errs = [ln for ln in out.splitlines() if ln.startswith('Error:')
                or 'Attempted' in ln or 'overflow' in ln.lower()]
        raise MachineryError(
            f'trace validation {module}/{cfg} did not complete:\n'
            + '\n'.join(errs[:8]) + '\n...\n' + out[-1500:])
    missing = [i for i in range(1, len(traces) + 1)
               if i not in res['verdicts']]
    if missing:
        cleanup(d)
        raise MachineryError(
            f'trace validation {module}: no verdict for traces '
            f'{missing[:5]}\n' + out[-3000:])
    return res


def sany(module):
    cmd = ['java', '-cp', TLA_CP, 'tla2sany.SANY', module]
    p = subprocess.run(cmd, cwd=str(SPEC), text=True, stdout=subprocess.PIPE,
                       stderr=subprocess.STDOUT)
    ok = p.returncode == 0 and 'Semantic errors' not in p.stdout \
        and '*** Errors' not in p.stdout and 'Fatal' not in p.stdout
    return ok, p.stdout


# ----------------------------------------------------------------------
# Known findings
# ----------------------------------------------------------------------

def known_findings(pid):
    f = VERIF / 'known_findings.json'
    if not f.exists():
        return []
    data = json.loads(f.read_text())
    return [k for k in data.get('findings', []) if k['property'] == pid]


# ----------------------------------------------------------------------
# Evidence + result
# ----------------------------------------------------------------------

class Result:
    """Collects what a check covered and its violations; writes evidence."""

    def __init__(self, pid, tier, level):
        self.pid = pid
        self.tier = tier
        self.level = level
        self.t0 = time.time()
        self.cov = {'states': 0, 'transitions': 0,
                    'traces_validated_against_impl': 0,
                    'evaluations': 0, 'distinct_nontrivial': 0,
                    'rule': '', 'samples': [], 'tlc_runs': [],
                    'trusted_base': []}
        self.assumptions = []
        self.violations = []      # (key, what, replay-object)
        shutil.rmtree(EVID / 'replay' / pid, ignore_errors=True)
        self._distinct = set()

    # coverage ---------------------------------------------------------
    def add_tlc(self, res, role):
        self.cov['states'] += res['distinct']
        self.cov['transitions'] += res['states']
        self.cov['tlc_runs'].append(
            {'module': res['module'], 'cfg': res['cfg'], 'role': role,
             'states_generated': res['states'],
             'distinct_states': res['distinct'],
             'wall_s': round(res['wall_s'], 2),
             'outcome': ('ok' if res.get('ok', True)
                         else f'violated:{res.get("violated")}')})

    def add_traces(self, n):
        self.cov['traces_validated_against_impl'] += n

    def add_eval(self, n=1):
        self.cov['evaluations'] += n

    def distinct(self, key, nontrivial=True):
        if nontrivial:
            self._distinct.add(key)

    def sample(self, s, cap=6):
        if len(self.cov['samples']) < cap:
            self.cov['samples'].append(s)

    def rule(self, text):
        self.cov['rule'] = text

    def assume(self, *texts):
        for t in texts:
            if t not in self.assumptions:
                self.assumptions.append(t)

    def trusted(self, *texts):
        for t in texts:
            if t not in self.cov['trusted_base']:
                self.cov['trusted_base'].append(t)

    # violations ---------------------------------------------------------
    def violation(self, key, what, replay=None):
        self.violations.append((key, what, replay))

    # finish ---------------------------------------------------------------
    def finish(self):
        EVID.mkdir(exist_ok=True)
        self.cov['distinct_nontrivial'] = len(self._distinct)
        known = known_findings(self.pid)
        new = []
        hit = set()
        for key, what, replay in self.violations:
            k = next((f for f in known if f['status'] == 'open'
                      and re.search(f['key'], key)), None)
            if k is not None:
                hit.add(k['key'])
            else:
                new.append((key, what, replay))
        for f in known:
            if f['status'] == 'open' and f['key'] in hit:
                print(f'KNOWN-FINDING: property={self.pid} {f["what"]}')
        ev = {'property_id': self.pid, 'tier': self.tier, 'seed': seed(),
              'level': self.level, 'coverage': self.cov,
              'assumptions': self.assumptions,
              'wall_s': round(time.time() - self.t0, 2),
              'violations': len(new),
              'known_findings_hit': sorted(hit)}
        if not self.cov['samples']:
            self.cov['samples'].append('(no sample recorded)')
        (EVID / f'{self.pid}.json').write_text(
            json.dumps(ev, indent=1, default=str) + '\n')
        if new:
            rdir = EVID / 'replay' / self.pid
            rdir.mkdir(parents=True, exist_ok=True)
            seen = set()
            cap = int(os.environ.get('VERIF_MAXVIOL', '20'))
            for i, (key, what, replay) in enumerate(new[:cap]):
                name = re.sub(r'[^A-Za-z0-9_.-]+', '_', key)[:80]
                if name in seen:
                    name += f'_{i}'
                seen.add(name)
                p = rdir / f'{name}.json'
                p.write_text(json.dumps(
                    {'property': self.pid, 'key': key, 'what': what,
                     'seed': seed(), 'tier': self.tier, 'replay': replay},
                    indent=1, default=str) + '\n')
                print(f'VIOLATION property={self.pid} replay={p}')
                print(f'  {key}: {what}')
            return 1
        return 0


def pin_env():
    """Pin sources of nondeterminism for the code under test."""
    os.environ.setdefault('OMP_NUM_THREADS', '1')
    os.environ.setdefault('OPENBLAS_NUM_THREADS', '1')
    os.environ.setdefault('MKL_NUM_THREADS', '1')
    os.environ.setdefault('PYTHONHASHSEED', '0')


def import_dassh():
    """Import dassh from the repository working tree (never a copy)."""
    pin_env()
    p = str(REPO)
    if p not in sys.path:
        sys.path.insert(0, p)
    import logging
    import dassh  # noqa
    got = Path(dassh.__file__).resolve().parent.parent
    if got != REPO.resolve():
        raise MachineryError(f'dassh imported from {got}, expected {REPO}')
    logging.disable(logging.CRITICAL)
    return dassh

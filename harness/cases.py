"""Scenario descriptions ("cases") and the DASSH input files made from them.

A case is a JSON-serialisable dict; `write_case` turns it into input.txt +
power.csv in a directory; `build` constructs the real dassh.Reactor from it.
Cases are what replay files contain.
"""
import math
import os

S3 = math.sqrt(3.0)

CONST_SODIUM = {'thermal_conductivity': 75.0, 'heat_capacity': 1275.0,
                'density': 850.0, 'viscosity': 0.00025}


def n_pins(n_ring):
    return 3 * n_ring * (n_ring - 1) + 1


def pos_index(ring, pos):
    """0-based position id of (ring>=1, pos>=1) in DASSH numbering."""
    if ring == 1:
        return 0
    return 3 * (ring - 2) * (ring - 1) + pos


def _fmt(x):
    if isinstance(x, bool):
        return 'True' if x else 'False'
    if isinstance(x, float):
        return repr(x)
    if isinstance(x, (list, tuple)):
        if len(x) == 1:
            return _fmt(x[0]) + ','      # a one-element list needs the comma
        return ', '.join(_fmt(v) for v in x)
    return str(x)


def bundle_type(n_ring, nd=1, P=0.0065, D=0.0055, Dw=0.0009, Pw=0.20,
                wall=0.003, byp=0.002, clearance=0.0003, ftf_outer=None,
                **kw):
    """An assembly type with a pin bundle. If ftf_outer is given the inner
    dimensions are scaled so that the outer duct has that flat-to-flat."""
    inner = S3 * (n_ring - 1) * P + D + 2 * Dw + clearance
    ftf = []
    x = inner
    walls = list(wall) if isinstance(wall, (list, tuple)) else [wall] * nd
    for i in range(nd):
        ftf += [x, x + 2 * walls[i]]
        x = x + 2 * walls[i] + 2 * byp
    if ftf_outer is not None:
        # shift all walls outward by the same amount (more clearance)
        shift = ftf_outer - ftf[-1]
        if shift < 0:
            raise ValueError('bundle does not fit requested outer ftf')
        ftf = [f + shift for f in ftf]
    t = {'num_rings': n_ring, 'pin_pitch': P, 'pin_diameter': D,
         'clad_thickness': 0.1 * D, 'wire_pitch': Pw, 'wire_diameter': Dw,
         'wire_direction': 'counterclockwise', 'duct_ftf': ftf,
         'duct_material': 'ss316', 'corr_mixing': 'CTD',
         'corr_friction': 'CTD', 'corr_flowsplit': 'CTD',
         'corr_nusselt': 'DB', 'shape_factor': 1.0}
    t.update(kw)
    return t


def fitted_type(n_ring, ftf_outer, nd=1, p2d=1.18, wfrac=0.9, wall=0.003,
                byp=0.002, clearance=0.0002, **kw):
    """A bundle type whose pins fill a duct of given outer flat-to-flat."""
    inner = ftf_outer - 2 * wall * nd - 2 * byp * (nd - 1)
    # sqrt3 (n-1) P + D + 2 Dw + clearance = inner, P = p2d D,
    # Dw = wfrac (P - D)
    D = (inner - clearance) / (S3 * (n_ring - 1) * p2d + 1
                                + 2 * wfrac * (p2d - 1))
    P = p2d * D
    Dw = wfrac * (P - D)
    t = bundle_type(n_ring, nd=nd, P=P, D=D, Dw=Dw, wall=wall, byp=byp,
                    clearance=clearance, **kw)
    # remove accumulated rounding: pin the outer ftf exactly
    t['duct_ftf'][-1] = ftf_outer
    return t


def write_case(case, d):
    """Write input.txt (+ power.csv, material csv) for a case into d."""
    os.makedirs(d, exist_ok=True)
    L = case['L']
    out = []
    su = case.get('setup', {})
    out.append('[Setup]')
    for k, v in su.items():
        if k in ('Units', 'Dump', 'AssemblyTables'):
            continue
        out.append(f'    {k} = {_fmt(v)}')
    for sec in ('Units', 'Dump'):
        if sec in su:
            out.append(f'    [[{sec}]]')
            for k, v in su[sec].items():
                out.append(f'        {k} = {_fmt(v)}')
    if 'AssemblyTables' in su:
        out.append('    [[AssemblyTables]]')
        for name, tb in su['AssemblyTables'].items():
            out.append(f'        [[[{name}]]]')
            for k, v in tb.items():
                out.append(f'            {k} = {_fmt(v)}')
    # ---- materials
    out.append('[Materials]')
    for name, m in case.get('materials', {}).items():
        out.append(f'    [[{name}]]')
        if '_table' in m:
            # a table of properties over temperature (0 = no entry)
            tb = m['_table']
            cols = [c for c in tb if c != 'temperature']
            with open(os.path.join(d, f'{name}.csv'), 'w') as f:
                f.write(','.join(['temperature'] + cols) + '\n')
                for i, T in enumerate(tb['temperature']):
                    f.write(','.join([repr(float(T))] + [
                        repr(float(tb[c][i])) for c in cols]) + '\n')
            out.append(f'        from_file = {name}.csv')
            continue
        for k, v in m.items():
            out.append(f'        {k} = {_fmt(v)}')
    # ---- power
    out.append('[Power]')
    if case.get('powers'):
        # several time points: one power file each
        names = []
        for i, pw in enumerate(case['powers']):
            nm = f'power_{i + 1}.csv'
            write_power_csv({'power': pw, 'csv_rows': case.get('csv_rows')},
                            os.path.join(d, nm))
            names.append(nm)
        out.append('    user_power = ' + ', '.join(names))
    elif case.get('power') is not None:
        write_power_csv(case, os.path.join(d, 'power.csv'))
        out.append('    user_power = power.csv')
    if case.get('total_power') is not None:
        out.append(f'    total_power = {_fmt(float(case["total_power"]))}')
    if case.get('power_scaling_factor') is not None:
        out.append('    power_scaling_factor = '
                   f'{_fmt(float(case["power_scaling_factor"]))}')
    # ---- core
    out.append('[Core]')
    out.append(f'    coolant_inlet_temp = {_fmt(float(case["inlet"]))}')
    out.append(f'    coolant_material = {case["coolant"]}')
    out.append(f'    length = {_fmt(float(L))}')
    out.append(f'    assembly_pitch = {_fmt(float(case["pitch"]))}')
    out.append(f'    gap_model = {case.get("gap_model", "flow")}')
    out.append('    bypass_fraction = '
               f'{_fmt(float(case.get("bypass_fraction", 0.0)))}')
    if case.get('core_htc'):
        out.append(f'    htc_params_duct = {_fmt(case["core_htc"])}')
    # ---- assemblies
    out.append('[Assembly]')
    for name, t in case['types'].items():
        out.append(f'    [[{name}]]')
        for k, v in t.items():
            if k in ('AxialRegion', 'SpacerGrid', 'FuelModel', 'PinModel',
                     'Hotspot') or k.startswith('_'):
                continue
            if k == 'duct_ftf' and case.get('ftf_listing'):
                # the same ducts listed in another order (nesting is by
                # magnitude): descending, or the outermost duct first
                asc = sorted(v)
                v = (asc[::-1] if case['ftf_listing'] == 'desc'
                     else asc[-2:] + asc[:-2])
            out.append(f'        {k} = {_fmt(v)}')
        if 'AxialRegion' in t:
            out.append('        [[[AxialRegion]]]')
            for rn, r in t['AxialRegion'].items():
                out.append(f'            [[[[{rn}]]]]')
                for k, v in r.items():
                    out.append(f'                {k} = {_fmt(v)}')
        for sec in ('SpacerGrid', 'FuelModel', 'PinModel'):
            if sec in t:
                out.append(f'        [[[{sec}]]]')
                for k, v in t[sec].items():
                    out.append(f'            {k} = {_fmt(v)}')
        if 'Hotspot' in t:
            out.append('        [[[Hotspot]]]')
            for hn, h in t['Hotspot'].items():
                out.append(f'            [[[[{hn}]]]]')
                for k, v in h.items():
                    out.append(f'                {k} = {_fmt(v)}')
    if case.get('orificing'):
        out.append('[Orificing]')
        for k, v in case['orificing'].items():
            out.append(f'    {k} = {_fmt(v)}')
    # ---- assignment
    out.append('[Assignment]')
    out.append('    [[ByPosition]]')
    for a in case['assign']:
        name, ring, pos = a[0], a[1], a[2]
        kw = a[3]
        kws = ', '.join(f'{k}={_fmt(float(v))}' for k, v in kw.items())
        pos_hi = a[4] if len(a) > 4 else pos      # optional position range
        out.append(f'        {name} = {ring}, {pos}, {pos_hi}, {kws}')
    path = os.path.join(d, 'input.txt')
    with open(path, 'w') as f:
        f.write('\n'.join(out) + '\n')
    return path


def write_power_csv(case, path):
    """rows: asm, comp(1 pins / 2 duct / 3 cool), zlo, zhi, idx, coeffs."""
    rows = []
    for aid, p in sorted(case['power'].items(), key=lambda kv: int(kv[0])):
        z = p['z']
        for ci, comp in enumerate(('pins', 'duct', 'cool')):
            arr = p.get(comp)
            if arr is None:
                continue
            for c in range(len(z) - 1):
                for i, coeffs in enumerate(arr[c]):
                    rows.append(','.join(
                        [str(int(aid)), str(ci + 1), repr(float(z[c])),
                         repr(float(z[c + 1])), str(i + 1)]
                        + [repr(float(x)) for x in coeffs]))
    # the rows of a file may come in any order: grouped by component across
    # the assemblies instead of by assembly (case['csv_rows'])
    if case.get('csv_rows') == 'by-component':
        rows.sort(key=lambda r: (int(r.split(',')[1]), int(r.split(',')[0])))
    with open(path, 'w') as f:
        f.write('\n'.join(rows) + '\n')


def cell_integral(coeffs, zlo, zhi):
    """Exact integral (W) over a power cell of sum_k c_k * zeta^k,
    zeta in [-1/2, 1/2]."""
    tot = 0.0
    for k, c in enumerate(coeffs):
        if k % 2 == 0:
            tot += c * (0.5 ** (k + 1)) * 2 / (k + 1)
    return tot * (zhi - zlo)


def asm_power_integral(case, aid):
    """Total power (W) of assembly aid (1-based id of the power file) as
    the integral of its own profile (before normalisation / scaling)."""
    p = case['power'][str(aid)]
    tot = 0.0
    for comp in ('pins', 'duct', 'cool'):
        arr = p.get(comp)
        if arr is None:
            continue
        for ci in range(len(p['z']) - 1):
            for coeffs in arr[ci]:
                tot += cell_integral(coeffs, p['z'][ci], p['z'][ci + 1])
    return tot


def poly_at(coeffs, zeta):
    return sum(c * zeta ** k for k, c in enumerate(coeffs))


def build(dassh, case, d, **kw):
    """DASSH_Input + Reactor for a case (files written into d)."""
    path = write_case(case, d)
    inp = dassh.DASSH_Input(path)
    opts = dict(path=d, write_output=False, calc_energy_balance=True)
    opts.update(kw)
    r = dassh.Reactor(inp, **opts)
    return inp, r


def n_power_items(t):
    """(#pins, #duct cells, #coolant cells) expected by the power file."""
    n = t['num_rings']
    nd = len(t['duct_ftf']) // 2
    return n_pins(n), 6 * n * nd, 6 * (n - 1) ** 2 + 6 * n


def random_power(rng, case, aid, tname, zcells, order=1, comps=('pins',
                 'duct', 'cool'), total=1.0e5, zero_cells=()):
    """Random asymmetric power shape for one assembly; positive on every
    cell (polynomial in zeta with |higher coefficients| small enough)."""
    t = case['types'][tname]
    npin, nduct, ncool = n_power_items(t)
    L = case['L']
    out = {'z': list(zcells)}
    share = {'pins': 0.9, 'duct': 0.06, 'cool': 0.04}
    count = {'pins': npin, 'duct': nduct, 'cool': ncool}
    ncell = len(zcells) - 1
    for comp in ('pins', 'duct', 'cool'):
        if comp not in comps:
            out[comp] = None
            continue
        arr = []
        for c in range(ncell):
            shape = 0.4 + rng.random()  # axial shape factor of the cell
            items = []
            for i in range(count[comp]):
                base = total * share[comp] / L / count[comp] * shape \
                    * (0.5 + rng.random())
                if c in zero_cells:
                    base = 0.0
                co = [base]
                for k in range(1, order + 1):
                    co.append(base * rng.uniform(-0.6, 0.6) / k)
                items.append(co)
            arr.append(items)
        out[comp] = arr
    return out

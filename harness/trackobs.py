"""Observer for the fold accumulators of an assembly: pressure drop parts
(C14) and running peak temperatures (C15).  Emits the events consumed by
spec/Trace_Track.tla."""
import numpy as np

from .common import q, limbs, QMAX
from . import drive
from .drive import qT, Observer

RP = 64
PIN_KEYS = ['clad_od', 'clad_mw', 'clad_id', 'fuel_od', 'fuel_cl']


def zl(x):
    """position (m) -> limbs of picometres"""
    return limbs(float(x), 1e-12)


class TrackObs(Observer):
    def __init__(self, reactor, exact, case=None):
        self.r = reactor
        # spacer grids as given in the input (positions, loss coefficient or
        # None for a correlation), not as the cloned regions recorded them
        self.grid_truth = None
        self.gravity = bool(reactor._options.get('include_gravity'))
        if case is not None:
            self.gravity = bool(case.get('setup', {}).get(
                'include_gravity_head_loss', False))
            self.grid_truth = []
            for a in reactor.assemblies:
                sg = case['types'][a.name].get('SpacerGrid')
                if sg and sg.get('axial_positions') and a.has_rodded:
                    self.grid_truth.append(
                        ([float(x) for x in sg['axial_positions']],
                         sg.get('loss_coeff'),
                         str(sg.get('corr') or '').upper(),
                         sg.get('solidity'), sg.get('corr_coeff')))
                else:
                    self.grid_truth.append(None)
        self.exact = int(bool(exact))
        self.raw = []
        n = len(reactor.assemblies)
        self.F = np.zeros(n)
        self.S = np.zeros(n)
        self.G = np.zeros(n)
        self.runC = [-np.inf] * n
        self.nslots = [len(a._peak['duct']) for a in reactor.assemblies]
        self.runD = [[-np.inf] * s for s in self.nslots]
        self.haspin = ['pin' in a._peak for a in reactor.assemblies]
        self.runP = [[-np.inf] * 5 for _ in range(n)]
        self.profP = [[None] * 5 for _ in range(n)]
        self.closed = np.zeros(n)

    def _grid_z(self, ai, rr):
        if self.grid_truth is not None:
            return self.grid_truth[ai][0] if self.grid_truth[ai] else None
        if 'grid' in rr.corr_constants:
            return [float(x) for x in rr.corr_constants['grid']['z']]
        return None

    def _grid_K(self, ai, rr):
        """Loss coefficient of one grid (None: the bundle has no grids)."""
        if self._grid_z(ai, rr) is None:
            return None
        if self.grid_truth is not None and \
                self.grid_truth[ai][1] is not None:
            return float(self.grid_truth[ai][1])
        # the Cigarini - Dalle Donne correlation with its published
        # coefficients and the solidity of the input, written out: the drag
        # coefficient times solidity squared, capped at 2
        gt = self.grid_truth[ai] if self.grid_truth is not None else None
        if gt is not None and len(gt) > 4 and gt[2] == 'CDD' and \
                gt[3] is not None and gt[4] is None:
            Re = float(rr.coolant_int_params['Re'])
            cv = 3.5 + 73.14 * Re ** -0.264 + 2.79e10 * Re ** -2.79
            return min(cv * float(gt[3]) ** 2.0, 2.0)
        # from another correlation (its value is C12's subject)
        return float(rr.coolant_int_params.get('grid_loss_coeff', 0.0))

    def on_asm(self, ai, asm, pre, dz, t_gap, h_gap, power, adiabatic):
        reg = pre.reg
        r = self.r
        k = self.k
        zlo, zhi = float(r.z[k - 1]), float(r.z[k])
        dp = reg._pressure_drop
        dF = dp['friction'] - pre.dp['friction']
        dS = dp.get('spacer_grid', 0.0) - pre.dp.get('spacer_grid', 0.0)
        dG = dp['gravity'] - pre.dp['gravity']
        rho = reg.coolant.density
        lossQ = 0.0
        if reg.is_rodded:
            p = reg.coolant_int_params
            cF = p['ff'] * dz * rho * p['vel'] ** 2 / reg.bundle_params['de'] / 2
            K = self._grid_K(ai, reg)
            if K is not None:
                lossQ = K * rho * p['vel'] ** 2 / 2
        else:
            p = reg.coolant_params
            de = (reg._rr_equiv.bundle_params['de']
                  if reg._rr_equiv is not None else reg._params['de'])
            ff = p['ff']
            if reg._rr_equiv is None:
                # a plain channel: in laminar flow the friction factor is
                # 64 / Re (Hagen-Poiseuille), computed here from the flow,
                # the flow area and the hydraulic diameter
                re_ = (reg.flow_rate * de / reg.coolant.viscosity
                       / reg.total_area['coolant_int'])
                if re_ < 2000.0:
                    ff = 64.0 / re_
            cF = ff * dz * rho * p['vel'] ** 2 / 2 / de
        # gravity as requested in the input, not as the region believes
        cG = rho * 9.80665 * dz if self.gravity else 0.0
        self.F[ai] += dF
        self.S[ai] += dS
        self.G[ai] += dG
        self.closed[ai] += cF + cG
        # ---- peaks
        cmax = float(np.max(asm.temp_coolant))
        cgt = int(cmax > self.runC[ai])
        if cgt:
            self.runC[ai] = cmax
        dm = np.max(asm.temp_duct_mw, axis=1)
        nd = len(dm)
        ns = self.nslots[ai]
        dmax = []
        for d in range(nd):
            s = ns - nd + d
            gt = int(0 <= s < ns and float(dm[d]) > self.runD[ai][s])
            if gt:
                self.runD[ai][s] = float(dm[d])
            dmax.append((float(dm[d]), gt))
        pmax = []
        prof_ok = 1
        codeP = []
        if self.haspin[ai] and hasattr(reg, 'pin_model'):
            tp = np.array(reg.pin_temps, copy=True)
            tp[:, 1] = asm.z
            for i, key in enumerate(PIN_KEYS):
                col = i + 4
                idx = int(np.argmax(tp[:, col]))
                v = float(tp[idx, col])
                gt = int(v > self.runP[ai][i])
                if gt:
                    self.runP[ai][i] = v
                    self.profP[ai][i] = list(tp[idx])
                pmax.append((v, gt))
                cp = asm._peak['pin'][key]
                exp = self.profP[ai][i]
                if exp is not None:
                    got = cp[2]
                    if (len(got) != len(exp) or
                            any(abs(float(a) - float(b)) > 1e-9
                                for a, b in zip(got, exp))):
                        prof_ok = 0
        elif self.haspin[ai]:
            pmax = [(0.0, 0)] * 5
        if self.haspin[ai]:
            # pin peaks carry no height; use the height of the profile
            for key in PIN_KEYS:
                cp = asm._peak['pin'][key]
                zz = float(cp[2][1]) if len(cp[2]) > 1 else 0.0
                codeP.append((float(cp[0]), zz))
        # the region that advanced this step is the one whose own bounds
        # (from the input) contain the step
        zr = getattr(reg, 'z', None)
        inreg = int(zr is not None and zlo >= float(zr[0]) - 1e-9
                    and zhi <= float(zr[1]) + 1e-9)
        self.raw.append({
            'inreg': inreg,
            'a': ai + 1, 'k': k, 'r': int(pre.ridx),
            'rod': int(bool(reg.is_rodded)), 'zlo': zl(zlo), 'zhi': zl(zhi),
            'dF': dF, 'dS': dS, 'dG': dG, 'cF': cF, 'cG': cG, 'lossQ': lossQ,
            'F': float(self.F[ai]), 'S': float(self.S[ai]),
            'G': float(self.G[ai]), 'P': float(asm.pressure_drop),
            'cmax': cmax, 'cgt': cgt,
            'codeC': (float(asm._peak['cool'][0]),
                      float(asm._peak['cool'][1])),
            'nd': nd, 'dmax': dmax,
            'codeD': [(float(v), float(h)) for v, h in asm._peak['duct']],
            'pmax': pmax, 'codeP': codeP, 'profOK': prof_ok})

    # ------------------------------------------------------------------
    def events(self, tables_ok=1, ptab=None, pdump=None):
        r = self.r
        n = len(r.assemblies)
        ptot = max([1e-9] + [abs(e['P']) for e in self.raw]
                   + [abs(e['lossQ']) for e in self.raw])
        SPt = 4.0 * ptot
        SPs = SPt / RP
        clipped = [0]

        def qs(x):
            v = q(float(x), SPs)
            if abs(v) >= QMAX:
                clipped[0] += 1
            return v

        def qt(x):
            return q(float(x), SPt)

        def pk(v, h):
            return [qT(v) if np.isfinite(v) else 0, zl(h)]
        ev = []
        for e in self.raw:
            ai = e['a'] - 1
            pm = [[qT(v), gt] for v, gt in e['pmax']]
            cp = [[qT(v), zl(h)] for v, h in e['codeP']]
            ev.append({
                'e': 'Track', 'a': e['a'], 'k': e['k'], 'r': e['r'],
                'inreg': e['inreg'],
                'rod': e['rod'], 'zlo': e['zlo'], 'zhi': e['zhi'],
                'exact': self.exact,
                'dF': qs(e['dF']), 'dS': qt(e['dS']), 'dG': qs(e['dG']),
                'cF': qs(e['cF']), 'cG': qs(e['cG']), 'lossQ': qt(e['lossQ']),
                'FTot': qt(e['F']), 'STot': qt(e['S']), 'GTot': qt(e['G']),
                'PTot': qt(e['P']),
                'cmax': qT(e['cmax']), 'cgt': e['cgt'],
                'codeC': pk(*e['codeC']),
                'nd': e['nd'],
                'dmax': [[qT(v), gt] for v, gt in e['dmax']],
                'codeD': [pk(v, h) for v, h in e['codeD']],
                'pmax': pm, 'codeP': cp, 'profOK': e['profOK']})
        grids, blo, bhi, npin = [], [], [], []
        closed = []
        for ai, a in enumerate(r.assemblies):
            g = []
            lo = hi = 0.0
            if a.has_rodded:
                rr = a.rodded
                lo, hi = float(rr.z[0]), float(rr.z[1])
                gz = self._grid_z(ai, rr)
                if gz is not None:
                    g = [zl(x) for x in gz]
                    ngrid = sum(1 for x in gz if lo < x <= hi)
                    pint = rr.coolant_int_params
                    self.closed[ai] += ngrid * (
                        self._grid_K(ai, rr) * rr.coolant.density
                        * pint['vel'] ** 2 / 2)
            grids.append(g)
            blo.append(zl(lo))
            bhi.append(zl(hi))
            npin.append(5 if self.haspin[ai] else 0)
            closed.append(qt(self.closed[ai]))
        ev.append({'e': 'Finish',
                   'P': [qt(float(a.pressure_drop)) for a in r.assemblies],
                   'closed': closed,
                   'pkC': [pk(float(a._peak['cool'][0]),
                              float(a._peak['cool'][1]))
                           for a in r.assemblies],
                   'pkD': [[pk(float(v), float(h)) for v, h in a._peak['duct']]
                           for a in r.assemblies],
                   'tables': int(tables_ok), 'clipped': clipped[0],
                   # printed pressure-drop table ([] not requested; an entry
                   # printed as '---' is -1; an unreadable table is [[-2]*5])
                   'ptab': ([] if ptab is None else
                            [[-2] * 5] * n if ptab == 'unreadable' else
                            [[-1 if v is None else qt(v) for v in row]
                             for row in ptab]),
                   # per-step pressure-drop dump ([] not requested): last row
                   # [total, F, S, G] and the row with the largest total -
                   # parts [total, sum]; an unreadable file is [[-2]*6]
                   'pdump': ([] if pdump is None else
                             [[-2] * 6] * n if pdump == 'unreadable' else
                             [[qt(v) for v in row] for row in pdump])})
        cfg = {'nasm': n, 'grids': grids, 'blo': blo, 'bhi': bhi,
               'gravity': int(self.gravity),
               'nslots': self.nslots, 'npin': npin, 'exact': self.exact}
        return cfg, ev

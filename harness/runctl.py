"""Run-control observation (C16): digests of the parsed input, of every
model built from it and of every result and output directory, for one
generated input executed under several schedules by the real code.

Wrappers (installed at run time, inherited by forked pool workers) sit on
Reactor.__init__, Reactor.temperature_sweep and Reactor.postprocess.
"""
import hashlib
import io
import json
import logging
import os
import random
import shutil
import types

import numpy as np

from . import common, cases

_CTX = {'log': None, 'run': 0, 'tpmap': None, 'root': None, 'seq': 0,
        'expdir': None, 'base': None}
_INSTALLED = {}


# ---------------------------------------------------------------------------
def _upd(h, *parts):
    for p in parts:
        h.update(p if isinstance(p, bytes) else str(p).encode())
        h.update(b'\x00')


def deep_digest(root, mask=(), maxdepth=12, skip=()):
    """Canonical content digest of an object graph. Strings containing one
    of `mask` are replaced by '<DIR>'; attributes named in `skip`, loggers,
    files, functions and modules are reduced to their type name."""
    h = hashlib.sha1()
    stack = set()

    def rec(o, depth):
        if o is None or isinstance(o, (bool, int, np.integer)):
            _upd(h, type(o).__name__[:3], repr(int(o)) if o is not None
                 and not isinstance(o, bool) else repr(o))
            return
        if isinstance(o, (float, np.floating)):
            _upd(h, 'f', float(o).hex())
            return
        if isinstance(o, complex):
            _upd(h, 'c', repr(o))
            return
        if isinstance(o, (str, bytes)):
            s = o if isinstance(o, str) else o.decode('latin1')
            if any(m and m in s for m in mask):
                s = '<DIR>'
            _upd(h, 's', s)
            return
        if isinstance(o, np.ndarray):
            if o.dtype == object:
                _upd(h, 'ndo', o.shape)
                for x in o.ravel():
                    rec(x, depth + 1)
            else:
                _upd(h, 'nd', o.dtype.str, o.shape,
                     np.ascontiguousarray(o).tobytes())
            return
        if isinstance(o, (logging.Logger, io.IOBase, types.FunctionType,
                          types.MethodType, types.ModuleType,
                          types.BuiltinFunctionType, type)):
            _upd(h, 'opaque', type(o).__name__)
            return
        if id(o) in stack or depth > maxdepth:
            _upd(h, 'cycle-or-deep', type(o).__name__)
            return
        stack.add(id(o))
        try:
            if isinstance(o, dict):
                _upd(h, 'dict', len(o))
                for k in sorted(o, key=repr):
                    if k in skip:
                        continue
                    rec(k, depth + 1)
                    rec(o[k], depth + 1)
            elif isinstance(o, (list, tuple)):
                _upd(h, type(o).__name__, len(o))
                for x in o:
                    rec(x, depth + 1)
            elif isinstance(o, (set, frozenset)):
                _upd(h, 'set', len(o))
                for x in sorted(o, key=repr):
                    rec(x, depth + 1)
            elif hasattr(o, '__dict__'):
                _upd(h, 'obj', type(o).__name__)
                d = vars(o)
                for k in sorted(d):
                    if k in skip:
                        continue
                    _upd(h, 'attr', k)
                    rec(d[k], depth + 1)
            elif hasattr(o, '__slots__'):
                _upd(h, 'slots', type(o).__name__)
                for k in o.__slots__:
                    rec(getattr(o, k, None), depth + 1)
            else:
                _upd(h, 'other', type(o).__name__)
        finally:
            stack.discard(id(o))
    rec(root, 0)
    return h.hexdigest()


SKIP_ATTRS = ('_logger', 'logger', '_log', 'timestep', '_timestep',
              '_starttime')
OUT_EXCLUDE = ('dassh.log', 'input.txt')


def files_digest(path):
    items = []
    for f in sorted(os.listdir(path)):
        p = os.path.join(path, f)
        if not os.path.isfile(p) or f in OUT_EXCLUDE or \
                f.startswith('power_') or f.startswith('power.') or \
                f.endswith('.pkl') or f.startswith('events.'):
            continue
        with open(p, 'rb') as fh:
            data = fh.read()
        if f == 'dassh.out':
            data = b'\n'.join(ln for ln in data.split(b'\n')
                              if not ln.startswith(b'Executed'))
        items.append((f, hashlib.sha1(data).hexdigest()))
    return hashlib.sha1(repr(items).encode()).hexdigest(), [i[0] for i in items]


def _emit(ev):
    c = _CTX
    if not c['log']:
        return
    c['seq'] += 1
    ev = dict(ev, run=c['run'], pid=os.getpid(), seq=c['seq'])
    with open(f"{c['log']}.{os.getpid()}", 'a') as f:
        f.write(json.dumps(ev) + '\n')


def install(dassh):
    """Wrap the three observation points of dassh.reactor.Reactor."""
    R = dassh.reactor.Reactor
    if R in _INSTALLED:
        return
    o_init, o_sweep, o_post = R.__init__, R.temperature_sweep, R.postprocess

    def mask():
        return (_CTX['root'],) if _CTX['root'] else ()

    def tp_of(k):
        m = _CTX['tpmap']
        return (m[k] if m else k) + 1

    def init(self, dassh_input, *a, **kw):
        if not _CTX['log']:
            return o_init(self, dassh_input, *a, **kw)
        pre = deep_digest(dassh_input.data, mask())
        k = kw.get('timestep', 0)
        o_init(self, dassh_input, *a, **kw)
        self._verif_tp = k
        self._verif_inp = dassh_input
        post = deep_digest(dassh_input.data, mask())
        model = deep_digest(self, mask(), skip=SKIP_ATTRS + (
            '_verif_tp', '_verif_inp'))
        _emit({'e': 'Build', 'tp': tp_of(k), 'pre': pre, 'post': post,
               'model': model, 'path': self.path})

    def sweep(self, *a, **kw):
        r = o_sweep(self, *a, **kw)
        if _CTX['log'] and hasattr(self, '_verif_tp'):
            res = deep_digest(self, mask(), skip=SKIP_ATTRS + (
                '_verif_tp', '_verif_inp'))
            _emit({'e': 'Sweep', 'tp': tp_of(self._verif_tp), 'res': res,
                   'post': deep_digest(self._verif_inp.data, mask())})
        return r

    def post(self, *a, **kw):
        r = o_post(self, *a, **kw)
        if _CTX['log'] and hasattr(self, '_verif_tp'):
            fd, names = files_digest(self.path)
            stray = 0
            base = _CTX['base']
            if base and os.path.abspath(self.path) != os.path.abspath(base):
                for f in os.listdir(base):
                    if f == 'dassh.out' or (f.endswith('.csv')
                                            and not f.startswith('power')):
                        stray = 1
            _emit({'e': 'Write', 'tp': tp_of(self._verif_tp), 'files': fd,
                   'names': names, 'path': self.path, 'stray': stray})
        return r
    R.__init__, R.temperature_sweep, R.postprocess = init, sweep, post
    _INSTALLED[R] = (o_init, o_sweep, o_post)


def uninstall(dassh):
    R = dassh.reactor.Reactor
    if R in _INSTALLED:
        R.__init__, R.temperature_sweep, R.postprocess = _INSTALLED.pop(R)


def _collect(log):
    evs = []
    d, base = os.path.split(log)
    for f in sorted(os.listdir(d)):
        if f.startswith(base + '.'):
            with open(os.path.join(d, f)) as fh:
                rows = [json.loads(x) for x in fh if x.strip()]
            rows.sort(key=lambda e: e['seq'])
            evs += rows
            os.remove(os.path.join(d, f))
    return evs


ARGS = {'save_reactor': False, 'verbose': False, 'no_power_calc': True}


def scribble(obj, depth=0):
    """Overwrite everything reachable in a nested structure of dicts, lists
    and arrays, in place (entries replaced, nested containers edited)."""
    import numpy as np
    if depth > 12:
        return
    if isinstance(obj, dict):
        for k in list(obj):
            v = obj[k]
            if isinstance(v, (dict, list, np.ndarray, tuple)):
                scribble(v, depth + 1)
                if isinstance(v, dict) and k in ('flowrate', 'outlet_temp',
                                                 'delta_temp'):
                    pass
            elif isinstance(v, bool):
                obj[k] = not v
            elif isinstance(v, (int, float)):
                obj[k] = v + 1
            elif isinstance(v, str):
                obj[k] = v + '_x'
    elif isinstance(obj, list):
        for i in range(len(obj)):
            v = obj[i]
            if isinstance(v, dict):
                scribble(v, depth + 1)
                # a new dictionary in place of the old one, as the
                # orificing set-up writes new boundary conditions
                obj[i] = {'flowrate': 0.12345}
            elif isinstance(v, (list, np.ndarray, tuple)):
                scribble(v, depth + 1)
            elif isinstance(v, bool):
                obj[i] = not v
            elif isinstance(v, (int, float)):
                obj[i] = v + 1
            elif isinstance(v, str):
                obj[i] = v + '_x'
    elif isinstance(obj, tuple):
        for v in obj:
            if isinstance(v, (dict, list, np.ndarray)):
                scribble(v, depth + 1)
    elif isinstance(obj, np.ndarray):
        if obj.dtype.kind == 'f' and obj.flags.writeable:
            obj += 1.0


def execute(args):
    """Worker: all schedules for one case. Returns a Trace_Run trace."""
    label, case, opts = args
    dassh = common.import_dassh()
    import dassh.__main__ as dmain
    install(dassh)
    rng = random.Random(opts.get('seed', 1))
    root = common.workdir('run-' + label)
    ntp = len(case['powers'])
    ev = []
    intern = {}

    def iid(s):
        return intern.setdefault(s, len(intern) + 1)
    dirs = {}

    def did(p):
        return dirs.setdefault(os.path.abspath(p), len(dirs) + 1)
    nrun = 0
    modes = []
    try:
        def begin(name, sub, tpmap=None, variant=None):
            nonlocal nrun
            nrun += 1
            d = os.path.join(str(root), sub)
            c = variant if variant is not None else case
            path = cases.write_case(c, d)
            _CTX.update(log=os.path.join(str(root), f'events{nrun}'),
                        run=nrun, tpmap=tpmap, root=str(root), seq=0,
                        base=d)
            modes.append(name)
            return d, path

        def finish(d, tps_expected, single=False):
            rows = _collect(_CTX['log'])
            _CTX['log'] = None
            for e in rows:
                o = {'e': e['e'], 'run': e['run'], 'tp': e['tp']}
                if e['e'] == 'Build':
                    o.update(pre=iid(e['pre']), post=iid(e['post']),
                             model=iid(e['model']))
                elif e['e'] == 'Sweep':
                    o.update(res=iid(e['res']), post=iid(e['post']))
                elif e['e'] == 'Write':
                    exp = d if single else os.path.join(
                        d, f'timestep_{e["tp"]}')
                    o.update(files=iid(e['files']), dir=did(e['path']),
                             expdir=did(exp), stray=e['stray'],
                             nfiles=len(e['names']))
                ev.append(o)
            ev.append({'e': 'End', 'run': nrun,
                       'tps': [1 if (t + 1) in tps_expected else 0
                               for t in range(ntp)]})

        def guarded(fn, stage):
            try:
                fn()
            except BaseException as e:       # SystemExit included
                ev.append({'e': 'Crash', 'run': nrun, 'stage': stage,
                           'exc': type(e).__name__, 'msg': str(e)[:200]})

        alltp = set(range(1, ntp + 1))
        # ---- run 1: serial loop of run_dassh
        d, path = begin('serial', 'A')
        inp = dassh.DASSH_Input(path)
        d0 = deep_digest(inp.data, (str(root),))
        ev.append({'e': 'Parse', 'run': nrun, 'd': iid(d0)})
        guarded(lambda: dmain.run_dassh(inp, dict(ARGS)), 'serial')
        finish(d, alltp, single=(ntp == 1))
        # ---- between the runs: a clone of the input is edited all over
        # (what the orificing iterations do to their copies of the input:
        # new boundary conditions written into the assignment entries);
        # the input itself stays as parsed
        try:
            cl = inp.clone()
            scribble(cl.data)
            ev.append({'e': 'Clone', 'run': nrun,
                       'post': iid(deep_digest(inp.data, (str(root),)))})
        except BaseException as e:
            ev.append({'e': 'Crash', 'run': nrun, 'stage': 'clone',
                       'exc': type(e).__name__, 'msg': str(e)[:200]})
        # ---- run 2: again, same input object
        nrun += 1
        _CTX.update(log=os.path.join(str(root), f'events{nrun}'), run=nrun,
                    seq=0)
        modes.append('again')
        ev.append({'e': 'Parse', 'run': nrun, 'd': iid(d0)})
        guarded(lambda: dmain.run_dassh(inp, dict(ARGS)), 'again')
        finish(d, alltp, single=(ntp == 1))
        # ---- the same input in a fresh interpreter with another string
        # hash seed (what a second execution from the command line is): the
        # same model, results and files
        if opts.get('otherhash', True):
            import subprocess
            import sys as _sys
            for hseed in opts.get('hashseeds', ('4242', '97')):
                d, path = begin('otherhash' + hseed, 'H' + hseed)
                ev.append({'e': 'Parse', 'run': nrun, 'd': iid(d0)})
                code = (
                    "import sys\n"
                    "sys.path.insert(0, %r)\n"
                    "from harness import common, runctl\n"
                    "dassh = common.import_dassh()\n"
                    "import dassh.__main__ as dmain\n"
                    "runctl.install(dassh)\n"
                    "runctl._CTX.update(log=%r, run=%d, tpmap=None, root=%r,"
                    " seq=0, base=%r)\n"
                    "inp = dassh.DASSH_Input(%r)\n"
                    "dmain.run_dassh(inp, dict(runctl.ARGS))\n"
                ) % (str(common.VERIF), _CTX['log'], nrun, str(root), d, path)

                def fresh(code=code, hseed=hseed):
                    p_ = subprocess.run(
                        [_sys.executable, '-c', code], capture_output=True,
                        text=True, timeout=900,
                        env=dict(os.environ, PYTHONHASHSEED=hseed,
                                 DASSH_REPO=str(common.REPO)))
                    if p_.returncode != 0:
                        raise RuntimeError('fresh interpreter failed: '
                                           + p_.stderr[-300:])
                guarded(fresh, 'otherhash')
                finish(d, alltp, single=(ntp == 1))
        # ---- run 3: pool
        if ntp > 1 and opts.get('pool', True):
            v = json.loads(json.dumps(case))
            v['setup'] = dict(v.get('setup', {}), parallel=True,
                              n_cpu=opts.get('n_cpu', 2))
            d, path = begin('pool', 'C', variant=v)
            inp3 = dassh.DASSH_Input(path)
            ev.append({'e': 'Parse', 'run': nrun,
                       'd': iid(deep_digest(inp3.data, (str(root),)))})
            guarded(lambda: dmain.run_dassh(inp3, dict(ARGS)), 'pool')
            finish(d, alltp)
        # ---- runs: each time point alone
        if ntp > 1:
            for k in (range(ntp) if opts.get('alone', 'all') == 'all'
                      else [rng.randrange(ntp)]):
                v = json.loads(json.dumps(case))
                v['powers'] = [case['powers'][k]]
                d, path = begin(f'alone{k + 1}', f'D{k + 1}', tpmap={0: k},
                                variant=v)
                inpk = dassh.DASSH_Input(path)
                ev.append({'e': 'Parse', 'run': nrun,
                           'd': iid(deep_digest(inpk.data, (str(root),)))})
                guarded(lambda: dmain.run_dassh(inpk, dict(ARGS)), 'alone')
                finish(d, {k + 1}, single=True)
        # ---- last run: direct constructions in shuffled order, all models
        # built before any is swept
        d, path = begin('shuffled', 'E')
        inp5 = dassh.DASSH_Input(path)
        ev.append({'e': 'Parse', 'run': nrun,
                   'd': iid(deep_digest(inp5.data, (str(root),)))})
        order = list(range(ntp))
        rng.shuffle(order)

        def shuffled():
            rs = []
            for k in order:
                wd = d if ntp == 1 else os.path.join(d, f'timestep_{k + 1}')
                rs.append(dassh.Reactor(inp5, calc_power=True, path=wd,
                                        timestep=k, write_output=True))
            rng.shuffle(rs)
            for r in rs:
                r.temperature_sweep()
                r.postprocess()
        guarded(shuffled, 'shuffled')
        finish(d, alltp, single=(ntp == 1))
        return {'label': label, 'ntp': ntp, 'nrun': nrun, 'ev': ev,
                'modes': modes, 'order': order}
    finally:
        _CTX['log'] = None
        common.cleanup(root)

"""Scenario lattice: builders of cases (see cases.py) used by several
checks. Every builder is deterministic given its rng."""
import copy
import math

from . import cases
from .cases import bundle_type, fitted_type, CONST_SODIUM, S3, pos_index


def base_case(L=0.6, inlet=623.15, gap_model='none', coolant='const',
              bypass_fraction=0.0):
    c = {'L': L, 'inlet': inlet, 'gap_model': gap_model,
         'bypass_fraction': bypass_fraction, 'setup': {
             'calc_energy_balance': True},
         'materials': {}, 'types': {}, 'assign': [], 'power': {}}
    if coolant == 'const':
        c['materials']['sodium_fixed'] = dict(CONST_SODIUM)
        c['coolant'] = 'sodium_fixed'
    else:
        c['coolant'] = coolant
    return c


def add_regions(t, L, lower=None, upper=None, rods=None):
    """Axial regions: lower/upper = dict(model=..., vf_coolant=...,
    convection_factor=...) or None; rods = (zlo, zhi)."""
    if lower is None and upper is None:
        return t
    zlo = rods[0] if rods else (round(0.25 * L, 6) if lower else 0.0)
    zhi = rods[1] if rods else (round(0.75 * L, 6) if upper else L)
    ar = {}
    t['_rods'] = [zlo, zhi]
    if lower is not None:
        ar['lower_refl'] = dict(z_lo=0.0, z_hi=zlo, **lower)
    if upper is not None:
        ar['upper_refl'] = dict(z_lo=zhi, z_hi=L, **upper)
    t['AxialRegion'] = ar
    return t


def layout_positions(n_pos):
    """(ring, pos) for the first n_pos positions of the spiral."""
    out = [(1, 1)]
    ring = 2
    while len(out) < n_pos:
        for p in range(1, 6 * (ring - 1) + 1):
            out.append((ring, p))
            if len(out) == n_pos:
                break
        ring += 1
    return out


def make_core(rng, type_specs, layout, flows, L=0.6, gap_model='flow',
              bypass_fraction=0.03, coolant='const', power_order=1,
              ncell=2, comps=('pins', 'duct', 'cool'), power_scale=1.0,
              setup=None, zero_cells=(), cell_bounds=None, inlet=623.15,
              asm_power=None, own_cells=False):
    """type_specs: {name: type dict}; layout: list of (ring, pos, name) for
    occupied positions; flows: {name: kg/s} or list per layout entry."""
    c = base_case(L=L, gap_model=gap_model, coolant=coolant,
                  bypass_fraction=bypass_fraction, inlet=inlet)
    if setup:
        c['setup'].update(setup)
    c['types'] = copy.deepcopy(type_specs)
    oftf = max(max(t['duct_ftf']) for t in type_specs.values())
    c['pitch'] = oftf + 0.004
    zc = cell_bounds or [L * i / ncell for i in range(ncell + 1)]
    for i, (ring, pos, name) in enumerate(layout):
        fl = flows[i] if isinstance(flows, (list, tuple)) else flows[name]
        c['assign'].append([name, ring, pos, {'FLOWRATE': fl}])
        aid = pos_index(ring, pos) + 1
        t = c['types'][name]
        npin = cases.n_pins(t['num_rings'])
        tot = (asm_power[i] if asm_power is not None
               else 2.0e4 * npin * power_scale * (0.6 + 0.8 * rng.random()))
        zci = zc
        if own_cells:
            # every assembly has its own power mesh
            cuts = sorted({round(rng.uniform(0.08, 0.92) * L, 3)
                           for _ in range(ncell - 1)})
            zci = [0.0] + cuts + [L]
        c['power'][str(aid)] = cases.random_power(
            rng, c, aid, name, zci, order=power_order, comps=comps,
            total=tot, zero_cells=zero_cells)
    return c


def flow_for(t, per_pin=0.09):
    return per_pin * cases.n_pins(t['num_rings'])


# ----------------------------------------------------------------------
# the standard single-assembly lattice used by C01 / C03 / C04 / C11 ...
# ----------------------------------------------------------------------

def single_lattice(rng, tier):
    """List of (label, case) for single-assembly problems covering region
    kinds, duct counts, bypass modes and options."""
    out = []
    OFT = None

    def one(label, t, gap_model='none', flow=None, **kw):
        fl = flow if flow is not None else flow_for(t)
        c = make_core(rng, {'a1': t}, [(1, 1, 'a1')], [fl],
                      gap_model=gap_model,
                      bypass_fraction=(0.05 if gap_model != 'none' else 0.0),
                      **kw)
        out.append((label, c))

    L = 0.6
    one('rod2-adiabatic', bundle_type(2))
    one('rod3-flowgap', bundle_type(3), gap_model='flow')
    one('rod3-dd-flowbyp', bundle_type(3, nd=2,
                                       bypass_gap_flow_fraction=0.08),
        gap_model='flow')
    one('rod2-dd-stagnant', bundle_type(2, nd=2,
                                        bypass_gap_flow_fraction=0.0),
        gap_model='flow')
    t = add_regions(bundle_type(3), L,
                    lower=dict(model='simple', vf_coolant=0.3),
                    upper=dict(model='simple', vf_coolant=0.4,
                               convection_factor=0.7))
    one('multi-simple', t, gap_model='flow')
    t = add_regions(bundle_type(2), L,
                    lower=dict(model='6node', vf_coolant=0.3),
                    upper=dict(model='6node', vf_coolant=0.35))
    one('multi-6node', t, gap_model='flow')
    t = add_regions(bundle_type(2), L,
                    lower=dict(model='6node', vf_coolant=0.3,
                               convection_factor=0.6),
                    upper=dict(model='simple', vf_coolant=0.35,
                               convection_factor=0.5))
    one('multi-convfactor', t, gap_model='flow')
    one('lowfi-simple', bundle_type(3, use_low_fidelity_model=True,
                                    low_fidelity_model='simple'),
        gap_model='flow')
    one('lowfi-6node', bundle_type(3, use_low_fidelity_model=True,
                                   low_fidelity_model='6node',
                                   convection_factor='calculate'),
        gap_model='flow')
    one('rod2-convapprox', bundle_type(2), gap_model='flow',
        flow=flow_for(bundle_type(2), 0.012),
        setup={'conv_approx': True, 'conv_approx_dz_cutoff': 0.01})
    one('rod2-3duct', bundle_type(2, nd=3), gap_model='flow')
    # constant cp but temperature-dependent viscosity, transition regime:
    # the Reynolds number drifts along the channel
    one('rod3-visc-transition', bundle_type(3), L=0.3,
        flow=flow_for(bundle_type(3), 0.0055), power_scale=0.08)
    out[-1][1]['materials']['sodium_visc'] = dict(
        CONST_SODIUM, viscosity=[6.0e-4, -5.0e-7])
    out[-1][1]['coolant'] = 'sodium_visc'
    one('rod3-wirecw-mit', bundle_type(3, wire_direction='clockwise',
                                       corr_mixing='MIT', corr_friction='NOV',
                                       corr_flowsplit='MIT'),
        gap_model='flow', power_order=2, ncell=3)
    # option combinations (each option is met at least once together with
    # regions of both kinds, several ducts and both outer boundaries)
    t = add_regions(bundle_type(2, nd=2, bypass_gap_flow_fraction=0.06), L,
                    lower=dict(model='6node', vf_coolant=0.3),
                    upper=dict(model='simple', vf_coolant=0.4,
                               convection_factor=0.8))
    one('opt-dd-regions-adiabatic-gravity', t, gap_model='none',
        setup={'include_gravity_head_loss': True, 'param_update_tol': 0.01})
    one('opt-se2geo', bundle_type(3), gap_model='flow',
        setup={'se2geo': True})
    one('opt-3duct-convapprox', bundle_type(2, nd=3), gap_model='flow',
        flow=flow_for(bundle_type(2), 0.012),
        setup={'conv_approx': True, 'conv_approx_dz_cutoff': 0.01})
    one('opt-uctd-grid-regions', add_regions(
        bundle_type(3, corr_mixing='UCTD', corr_friction='UCTD',
                    corr_flowsplit='UCTD',
                    SpacerGrid={'corr': 'REH', 'axial_positions': [0.25, 0.4],
                                'solidity': 0.2}), L,
        upper=dict(model='6node', vf_coolant=0.35, convection_factor=0.7)),
        gap_model='flow')
    one('opt-outlet-temp-bc', bundle_type(3), gap_model='flow')
    out[-1][1]['assign'] = [[a[0], a[1], a[2], {'OUTLET_TEMP': 770.0}]
                            for a in out[-1][1]['assign']]
    one('opt-delta-temp-bc-noflowgap', bundle_type(2, nd=2),
        gap_model='no_flow')
    out[-1][1]['assign'] = [[a[0], a[1], a[2], {'DELTA_TEMP': 130.0}]
                            for a in out[-1][1]['assign']]
    # second batch: less common model options
    one('opt-shapefactor-ct', bundle_type(3, corr_shapefactor='CT'),
        gap_model='flow')
    one('opt-shapefactor-value', bundle_type(2, shape_factor=1.4),
        gap_model='flow')
    one('opt-bare-kc', bundle_type(3, Dw=0.0, Pw=0.0, corr_mixing='KC-BARE',
                                   corr_friction='CTD', corr_flowsplit='CTD',
                                   clearance=0.002),
        gap_model='flow')
    one('opt-dummy-pins', bundle_type(3, dummy_pin=[1, 8]), gap_model='flow')
    one('opt-htc-custom-dd', bundle_type(2, nd=2,
                                         htc_params_duct=[0.03, 0.75, 0.8, 6.0]),
        gap_model='flow')
    out[-1][1]['core_htc'] = [0.02, 0.8, 0.8, 5.0]
    one('opt-eng-se2-mit', bundle_type(3, corr_friction='ENG',
                                       corr_flowsplit='SE2',
                                       corr_mixing='MIT'), gap_model='flow')
    one('opt-lowfi-cf-float', bundle_type(3, use_low_fidelity_model=True,
                                          low_fidelity_model='simple',
                                          convection_factor=0.6),
        gap_model='flow')
    # third batch: region stacks and pin models
    t = bundle_type(2)
    t['AxialRegion'] = {
        'inlet': dict(model='simple', vf_coolant=0.5, z_lo=0.0, z_hi=0.08),
        'shield': dict(model='6node', vf_coolant=0.3, z_lo=0.08, z_hi=0.2),
        'plenum': dict(model='simple', vf_coolant=0.6, z_lo=0.45, z_hi=0.55,
                       convection_factor=0.9),
        'outlet': dict(model='6node', vf_coolant=0.4, z_lo=0.55, z_hi=L)}
    t['_rods'] = [0.2, 0.45]
    one('opt-five-regions', t, gap_model='flow', ncell=4,
        cell_bounds=[0.0, 0.08, 0.2, 0.45, L],
        setup={'include_gravity_head_loss': True})
    t = add_regions(bundle_type(3), L, upper=dict(model='6node',
                                                  vf_coolant=0.35))
    one('opt-only-upper-region', t, gap_model='flow')
    t = add_regions(bundle_type(2, nd=2), L,
                    lower=dict(model='simple', vf_coolant=0.3))
    one('opt-only-lower-region-dd', t, gap_model='none')
    # ducts whose walls differ in thickness (the un-rodded regions model
    # only the outermost wall)
    t = add_regions(bundle_type(2, nd=2, wall=[0.002, 0.0045],
                                bypass_gap_flow_fraction=0.06), L,
                    lower=dict(model='simple', vf_coolant=0.3),
                    upper=dict(model='6node', vf_coolant=0.4,
                               convection_factor=0.8))
    one('opt-dd-unequal-walls-regions', t, gap_model='flow')
    # region boundaries written with seven decimals (values converted from
    # other units look like this), power in every region
    t = add_regions(bundle_type(2), L,
                    lower=dict(model='simple', vf_coolant=0.3),
                    upper=dict(model='simple', vf_coolant=0.4),
                    rods=[0.1234567, 0.4141597])
    one('opt-regions-seven-decimals', t, gap_model='flow', ncell=2,
        power_order=1)
    # the low-flow convection approximation on a double duct with unequal
    # walls, heat crossing the outer wall
    one('opt-dd-unequal-walls-lowflow-approx',
        bundle_type(2, nd=2, wall=[0.002, 0.005],
                    bypass_gap_flow_fraction=0.1),
        gap_model='flow', flow=flow_for(bundle_type(2), 0.012),
        setup={'conv_approx': True, 'conv_approx_dz_cutoff': 0.01})
    one('opt-3duct-unequal-walls-lowfi',
        bundle_type(2, nd=3, wall=[0.004, 0.003, 0.0015],
                    use_low_fidelity_model=True, low_fidelity_model='simple'),
        gap_model='flow')
    if tier == 'thorough':
        one('rod4-adiabatic', bundle_type(4), power_order=2, ncell=3)
        one('rod5-dd', bundle_type(5, nd=2), gap_model='flow')
        one('rod3-3duct', bundle_type(3, nd=3), gap_model='flow')
        one('rod2-laminar', bundle_type(2), gap_model='flow', L=0.3,
            flow=flow_for(bundle_type(2), 0.006))
        one('rod3-updtol', bundle_type(3), gap_model='flow',
            setup={'param_update_tol': 0.05})
        one('rod3-pinsonly', bundle_type(3), gap_model='flow',
            comps=('pins',))
        one('rod2-zero', bundle_type(2), gap_model='flow', power_scale=0.0)
        t = add_regions(bundle_type(3, nd=2), L,
                        lower=dict(model='simple', vf_coolant=0.3),
                        upper=dict(model='6node', vf_coolant=0.4))
        one('multi-dd-mixed', t, gap_model='flow')
    return out


def core_lattice(rng, tier):
    """Multi-assembly cores with mixed meshes, empties and periphery."""
    out = []
    OF = 0.060
    A = fitted_type(2, OF)
    B = fitted_type(3, OF)
    Cc = fitted_type(4, OF, p2d=1.22)
    DD = fitted_type(3, OF, nd=2, wall=0.002, byp=0.0015)
    U = fitted_type(3, OF, use_low_fidelity_model=True,
                    low_fidelity_model='simple')
    U6 = fitted_type(2, OF, use_low_fidelity_model=True,
                     low_fidelity_model='6node')

    # flows differ from position to position (what holds per assembly must
    # not be computed per type)
    FF = (1.0, 0.9, 1.15, 0.8, 1.05, 0.7, 1.2, 0.95, 0.85)

    def core(label, types, lay, **kw):
        flows = [flow_for(types[n], 0.12) * FF[i % len(FF)]
                 for i, (_, _, n) in enumerate(lay)]
        out.append((label, make_core(rng, types, lay, flows, **kw)))

    p7 = layout_positions(7)
    core('7-mixed-AB', {'A': A, 'B': B},
         [(r, p, 'B' if i in (0, 3) else 'A') for i, (r, p) in enumerate(p7)])
    core('7-missing', {'A': A, 'B': B},
         [(r, p, 'A' if i % 2 else 'B') for i, (r, p) in enumerate(p7)
          if i not in (2, 5)], own_cells=True, ncell=3)
    core('7-dd-unrodded', {'A': A, 'DD': DD, 'U': U},
         [(r, p, ['DD', 'A', 'U', 'A', 'A', 'U', 'A'][i])
          for i, (r, p) in enumerate(p7)])
    core('2-pair', {'A': A, 'C': Cc}, [(1, 1, 'C'), (2, 1, 'A')])
    if tier == 'thorough':
        p19 = layout_positions(19)
        core('19-mixed', {'A': A, 'B': B, 'C': Cc},
             [(r, p, ['A', 'B', 'C'][(i * 7 + 1) % 3])
              for i, (r, p) in enumerate(p19) if i not in (8, 13)])
        core('7-6node', {'A': A, 'U6': U6},
             [(r, p, 'U6' if i in (0, 4) else 'A')
              for i, (r, p) in enumerate(p7)])
        core('7-centerless', {'A': A, 'B': B},
             [(r, p, 'A' if i % 2 else 'B') for i, (r, p) in enumerate(p7)
              if i != 0])
        core('7-regions', {'A': add_regions(copy.deepcopy(A), 0.6,
                                            lower=dict(model='simple',
                                                       vf_coolant=0.3)),
                           'B': B},
             [(r, p, 'B' if i in (0, 3) else 'A')
              for i, (r, p) in enumerate(p7)])
    return out



def tight_among_loose(rng, gap_model='flow'):
    """A tightly fitting 3-ring bundle surrounded by loosely fitting 4-ring
    bundles in the same duct: the coarser assembly has the shorter corner
    duct cells, so its corner cells lie inside the gap's corner cells."""
    OF = 0.060
    A3 = fitted_type(3, OF)
    B4 = fitted_type(4, OF, clearance=0.006)
    tys = {'A': A3, 'B': B4}
    names = ['A', 'B', 'B', 'B', 'B', 'B', 'B']
    p7 = layout_positions(7)
    return make_core(rng, tys, [(r_, p_, names[i]) for i, (r_, p_) in
                                enumerate(p7)],
                     [flow_for(tys[n], 0.08) for n in names],
                     gap_model=gap_model, bypass_fraction=0.03, ncell=2,
                     power_order=1)

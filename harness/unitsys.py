"""Unit-system metamorphosis (C17): one physical problem (a case in SI) is
written in every supported unit system; the parsed internal data and the
swept results are compared with the SI original.  The unit algebra that
decides "converted exactly once" is evaluated by TLC (Units.tla /
Trace_Units.tla) on integer quanta; this module only writes inputs, flattens
parsed data and quantises."""
import copy
import math
import os

import numpy as np

from . import common, cases

LENGTH = {'m': 1.0, 'cm': 0.01, 'mm': 0.001, 'in': 0.0254, 'ft': 0.3048}
# user quantum per unit (in that unit) and the internal quantum (SI)
LQ = {'m': 1e-8, 'cm': 1e-6, 'mm': 1e-5, 'in': 1e-6, 'ft': 1e-7}
LQ_SI = 1e-8
TQ = {'k': 1e-5, 'c': 1e-5, 'f': 1e-5}
TQ_SI = 1e-5
MASS = {'kg': 1.0, 'lb': 0.453592}
TIME = {'s': 1.0, 'min': 60.0, 'hr': 3600.0}
FQ_SI = 1e-7
# user flow quantum: chosen so that the time factor is exactly absorbed
FQ = {'s': 1e-7, 'min': 6e-6, 'hr': 3.6e-4}

# ---- dimension of every numeric key of the input schema -------------------
# (section pattern, key) -> 'L' | 'T' | 'dT' | 'F' | None (dimensionless or
# always SI).  Every float/list key of dassh/input_template.txt must appear.
DIMS = {
    ('Setup', 'axial_mesh_size'): 'L', ('Setup', 'axial_plane'): 'L',
    ('Setup', 'conv_approx_dz_cutoff'): 'L', ('Setup', 'log_progress'): None,
    ('Setup', 'param_update_tol'): None, ('Setup', 'n_cpu'): None,
    ('Setup/Dump', 'interval'): 'L',
    ('Setup/AssemblyTables/*', 'axial_positions'): 'L',
    ('Setup/AssemblyTables/*', 'assemblies'): None,
    ('Power', 'total_power'): None, ('Power', 'power_scaling_factor'): None,
    ('Core', 'coolant_inlet_temp'): 'T', ('Core', 'length'): 'L',
    ('Core', 'bypass_fraction'): None, ('Core', 'assembly_pitch'): 'L',
    ('Core', 'htc_params_duct'): None,
    ('Assembly/*', 'num_rings'): None, ('Assembly/*', 'pin_pitch'): 'L',
    ('Assembly/*', 'pin_diameter'): 'L', ('Assembly/*', 'wire_pitch'): 'L',
    ('Assembly/*', 'wire_diameter'): 'L', ('Assembly/*', 'duct_ftf'): 'L',
    ('Assembly/*', 'clad_thickness'): 'L', ('Assembly/*', 'dummy_pin'): None,
    ('Assembly/*', 'htc_params_duct'): None,
    ('Assembly/*', 'bypass_gap_flow_fraction'): None,
    ('Assembly/*', 'bypass_gap_loss_coeff'): None,
    ('Assembly/*', 'shape_factor'): None,
    ('Assembly/*', 'convection_factor'): None,
    ('Assembly/*/AxialRegion/*', 'z_lo'): 'L',
    ('Assembly/*/AxialRegion/*', 'z_hi'): 'L',
    ('Assembly/*/AxialRegion/*', 'vf_coolant'): None,
    ('Assembly/*/AxialRegion/*', 'hydraulic_diameter'): 'L',
    ('Assembly/*/AxialRegion/*', 'epsilon'): 'L',
    ('Assembly/*/AxialRegion/*', 'magic_knob'): None,
    ('Assembly/*/AxialRegion/*', 'htc_params'): None,
    ('Assembly/*/AxialRegion/*', 'convection_factor'): None,
    ('Assembly/*/SpacerGrid', 'corr_coeff'): None,
    ('Assembly/*/SpacerGrid', 'loss_coeff'): None,
    ('Assembly/*/SpacerGrid', 'axial_positions'): 'L',
    ('Assembly/*/SpacerGrid', 'solidity'): None,
    ('Assembly/*/FuelModel', 'fcgap_thickness'): 'L',
    ('Assembly/*/FuelModel', 'gap_thickness'): 'L',
    ('Assembly/*/FuelModel', 'htc_params_clad'): None,
    ('Assembly/*/FuelModel', 'r_frac'): None,
    ('Assembly/*/FuelModel', 'pu_frac'): None,
    ('Assembly/*/FuelModel', 'zr_frac'): None,
    ('Assembly/*/FuelModel', 'porosity'): None,
    ('Assembly/*/PinModel', 'fcgap_thickness'): 'L',
    ('Assembly/*/PinModel', 'gap_thickness'): 'L',
    ('Assembly/*/PinModel', 'htc_params_clad'): None,
    ('Assembly/*/PinModel', 'r_frac'): None,
    ('Assembly/*/Hotspot/*', 'input_sigma'): None,
    ('Assembly/*/Hotspot/*', 'output_sigma'): None,
    ('Orificing', 'n_groups'): None, ('Orificing', 'group_cutoff'): None,
    ('Orificing', 'group_cutoff_delta'): None,
    ('Orificing', 'bulk_coolant_temp'): 'T',
    ('Orificing', 'iteration_limit'): None,
    ('Orificing', 'convergence_tol'): None,
    ('Orificing', 'regroup_option_tol'): None,
    ('Orificing', 'regroup_improvement_tol'): None,
    ('Orificing', 'pressure_drop_limit'): None,
    ('Assignment', 'flowrate'): 'F', ('Assignment', 'outlet_temp'): 'T',
    ('Assignment', 'delta_temp'): 'dT',
}


def template_numeric_keys(dassh):
    """(section pattern, key) of every numeric key of the shipped template
    (sections Plot and ARC are outside the scope of unit conversion)."""
    path = os.path.join(os.path.dirname(dassh.__file__), 'input_template.txt')
    sec = []
    out = []
    for ln in open(path):
        s = ln.strip()
        if not s or s.startswith('#'):
            continue
        if s.startswith('['):
            depth = len(s) - len(s.lstrip('['))
            name = s.strip('[]')
            sec = sec[:depth - 1] + ['*' if name == '__many__' else name]
            continue
        if '=' not in s:
            continue
        key, typ = [x.strip() for x in s.split('=', 1)]
        if typ.split('(')[0] in ('float', 'integer', 'float_list', 'int_list',
                                 'force_list'):
            out.append(('/'.join(sec), key))
    return [k for k in out if not k[0].startswith('Plot')
            and not k[0].startswith('Power/ARC')]


def to_user(v, dim, u):
    """SI value -> value in the user's units (own factors)."""
    if v is None or dim is None:
        return v
    if isinstance(v, (list, tuple)):
        return [to_user(x, dim, u) for x in v]
    if dim == 'L':
        return v / LENGTH[u['length']]
    if dim == 'T':
        return {'k': v, 'c': v - 273.15,
                'f': (v - 273.15) * 9.0 / 5.0 + 32.0}[u['temperature']]
    if dim == 'dT':
        return v * (9.0 / 5.0 if u['temperature'] == 'f' else 1.0)
    if dim == 'F':
        m, t = u['mass_flow_rate'].split('/')
        return v / MASS[m] * TIME[t]
    raise ValueError(dim)


TYPE_L = ('pin_pitch', 'pin_diameter', 'wire_pitch', 'wire_diameter',
          'duct_ftf', 'clad_thickness')
REGION_L = ('z_lo', 'z_hi', 'hydraulic_diameter', 'epsilon')


def case_in_units(case, u):
    """The same problem written in unit system u (dict with length,
    temperature, mass_flow_rate)."""
    c = copy.deepcopy(case)
    su = c.setdefault('setup', {})
    for k in ('axial_mesh_size', 'axial_plane', 'conv_approx_dz_cutoff'):
        if su.get(k) is not None:
            su[k] = to_user(su[k], 'L', u)
    if 'Dump' in su and su['Dump'].get('interval') is not None:
        su['Dump']['interval'] = to_user(su['Dump']['interval'], 'L', u)
    for tb in su.get('AssemblyTables', {}).values():
        tb['axial_positions'] = to_user(tb['axial_positions'], 'L', u)
    su['Units'] = dict(u)
    c['L'] = to_user(c['L'], 'L', u)
    c['pitch'] = to_user(c['pitch'], 'L', u)
    c['inlet'] = to_user(c['inlet'], 'T', u)
    for t in c['types'].values():
        for k in TYPE_L:
            if k in t:
                t[k] = to_user(t[k], 'L', u)
        for r in t.get('AxialRegion', {}).values():
            for k in REGION_L:
                if k in r:
                    r[k] = to_user(r[k], 'L', u)
        sg = t.get('SpacerGrid')
        if sg and sg.get('axial_positions') is not None:
            sg['axial_positions'] = to_user(sg['axial_positions'], 'L', u)
        for sec in ('FuelModel', 'PinModel'):
            if sec in t and 'gap_thickness' in t[sec]:
                t[sec]['gap_thickness'] = to_user(t[sec]['gap_thickness'],
                                                  'L', u)
    new = []
    for a in c['assign']:
        kw = dict(a[3])
        for k in list(kw):
            dim = {'flowrate': 'F', 'outlet_temp': 'T',
                   'delta_temp': 'dT'}.get(k.lower())
            if dim:
                kw[k] = to_user(kw[k], dim, u)
        new.append(tuple([a[0], a[1], a[2], kw] + list(a[4:])))
    c['assign'] = new
    if c.get('orificing') and 'bulk_coolant_temp' in c['orificing']:
        c['orificing']['bulk_coolant_temp'] = to_user(
            c['orificing']['bulk_coolant_temp'], 'T', u)
    return c


def flatten(data):
    """Leaves of DASSH_Input.data: {path: value}; numeric lists are split
    into elements; the Units section is skipped."""
    out = {}

    def rec(o, p):
        if isinstance(o, dict):
            for k, v in o.items():
                if p == 'Setup' and k == 'Units':
                    continue
                rec(v, f'{p}/{k}' if p else str(k))
        elif isinstance(o, (list, tuple)):
            for i, v in enumerate(o):
                rec(v, f'{p}[{i}]')
        elif isinstance(o, np.ndarray):
            for i, v in enumerate(o.ravel()):
                rec(v.item(), f'{p}[{i}]')
        else:
            out[p] = o
    rec(data, '')
    return out


def dim_of_path(p):
    """Dimension of a leaf path of DASSH_Input.data (None if free)."""
    parts = [x.split('[')[0] for x in p.split('/')]
    key = parts[-1]
    if parts[0] == 'Assignment':
        return DIMS.get(('Assignment', key))
    pat = []
    for i, x in enumerate(parts[:-1]):
        if parts[0] == 'Assembly' and i in (1, 3):
            pat.append('*')
        elif parts[0] == 'Setup' and len(parts) > 2 and \
                parts[1] == 'AssemblyTables' and i == 2:
            pat.append('*')
        else:
            pat.append(x)
    return DIMS.get(('/'.join(pat), key))


def quant_user(v, dim, u):
    if dim == 'L':
        return int(round(v / LQ[u['length']]))
    if dim in ('T', 'dT'):
        return int(round(v / TQ[u['temperature']]))
    if dim == 'F':
        return int(round(v / FQ[u['mass_flow_rate'].split('/')[1]]))
    raise ValueError(dim)


def quant_si(v, dim):
    q = {'L': LQ_SI, 'T': TQ_SI, 'dT': TQ_SI, 'F': FQ_SI}[dim]
    return int(round(v / q))


UNIT_NAMES = {
    'length': {'m': ['m', 'meter', 'Meters'], 'cm': ['cm', 'centimeters'],
               'mm': ['mm', 'millimeter'], 'in': ['in', 'inch', 'inches'],
               'ft': ['ft', 'foot', 'feet']},
    'temperature': {'k': ['kelvin', 'K'], 'c': ['celsius', 'C', 'degC'],
                    'f': ['fahrenheit', 'F', 'degf']},
}

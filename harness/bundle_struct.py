"""Projection of the pin-bundle structure the implementation builds
(PinLattice / Subchannel / RoddedRegion) to lattice coordinates, and the
event list consumed by spec/Trace_Bundle.tla.

Cells are identified by GEOMETRY ONLY (published centroids), never by the
implementation's index formulas; what the index tables claim about each cell
is reported next to the geometric key and compared by TLC with Bundle.tla.
"""
import math
import numpy as np

from .common import q, MachineryError

S3 = math.sqrt(3.0)
# clockwise unit directions, as in HexLattice.tla (90, 30, -30, ... deg)
DIRS = [(0, 1), (1, 0), (1, -1), (0, -1), (-1, 0), (-1, 1)]


def lat2xy(qr, pitch):
    return np.array([S3 / 2 * qr[0] * pitch, (qr[1] + qr[0] / 2) * pitch])


def xy2lat(xy, pitch):
    fq = xy[0] / (S3 / 2 * pitch)
    fr = xy[1] / pitch - fq / 2
    return fq, fr


def hexdist(p):
    return max(abs(p[0]), abs(p[1]), abs(p[0] + p[1]))


def const_material(dassh, name='coolfix', k=75.0, cp=1275.0, rho=850.0,
                   mu=0.00025):
    return dassh.Material(name, coeff_dict={
        'thermal_conductivity': [k], 'heat_capacity': [cp],
        'density': [rho], 'viscosity': [mu]})


def make_region(dassh, n_ring, dims, nd, se2=False, wire_dir='clockwise',
                flow=1.0, ff='CTD', fs='CTD', mix='CTD', coolant=None,
                byp_ff=0.05, grid=None, sf=1.0, tol=0.0, gravity=False,
                order='asc'):
    """Construct a RoddedRegion directly from dimensions. `order` is how
    the flat-to-flat values are listed (the nesting is by magnitude):
    ascending, descending, or the outermost duct first."""
    P, D, Dw, Pw, ftf = dims
    cool = coolant or const_material(dassh)
    duct = dassh.Material('ss316')
    asc = sorted(float(x) for x in ftf)
    listed = list(asc)
    if order == 'desc':
        listed = asc[::-1]
    elif order == 'outer-first':
        listed = asc[-2:] + asc[:-2]
    rr = dassh.RoddedRegion(
        'probe', n_ring, P, D, Pw, Dw, 0.1 * D, listed, flow, cool, duct,
        None, ff, fs, mix, 'DB', None, grid, byp_ff, None, wire_dir, sf,
        se2, tol, gravity)
    # the nesting the input means, for the geometric oracle
    rr._verif_ftf = [[asc[2 * i], asc[2 * i + 1]]
                     for i in range(len(asc) // 2)]
    rr._verif_dims = {'n_ring': int(n_ring), 'pin_pitch': float(P),
                      'pin_diameter': float(D), 'wire_diameter': float(Dw),
                      'n_pin': 3 * (n_ring - 1) * n_ring + 1,
                      'n_duct': len(asc) // 2}
    return rr


def dim(rr, name):
    """A dimension of the bundle as given to the constructor (for regions
    made by make_region), else as the region records it."""
    d = getattr(rr, '_verif_dims', None)
    return d[name] if d is not None else getattr(rr, name)


def truth_ftf(rr):
    t = getattr(rr, '_verif_ftf', None)
    return [list(map(float, f)) for f in (t if t is not None
                                          else rr.duct_ftf)]


def random_dims(rng, n_ring, nd, bare=False):
    """Admissible pitch / diameter / wire / duct dimensions (metres)."""
    D = rng.uniform(0.004, 0.012)
    p2d = rng.uniform(1.06, 1.35)
    P = D * p2d
    Dw = 0.0 if bare else (P - D) * rng.uniform(0.6, 0.98)
    Pw = D * rng.uniform(8.0, 40.0)
    inner = S3 * (n_ring - 1) * P + D + 2 * Dw + rng.uniform(0.02, 0.6) * (P - D)
    ftf = []
    x = inner
    for i in range(nd):
        th = rng.uniform(0.001, 0.004)
        ftf += [x, x + 2 * th]
        x = x + 2 * th + 2 * rng.uniform(0.0015, 0.004)
    return (P, D, Dw, Pw, ftf)


class Projection:
    """index -> geometric key for pins and subchannels of a RoddedRegion."""

    def __init__(self, rr):
        self.rr = rr
        sc = rr.subchannel
        self.N = N = dim(rr, 'n_ring')
        self.ND = dim(rr, 'n_duct')
        self.n = n = N - 1
        P = dim(rr, 'pin_pitch')
        self.P = P
        tol = 1e-7 * P
        # the corner cell lies on the diagonal half way between the surface
        # of the corner pin and the corner of the innermost duct (dimensions
        # as given to the constructor)
        self.r_corner = None
        try:
            F = float(truth_ftf(rr)[0][0])
            D = float(dim(rr, 'pin_diameter'))
            self.r_corner = 0.5 * (n * P + D / 2 + F / S3)
        except (KeyError, AttributeError, IndexError, TypeError):
            pass
        # ---- pins
        pxy = np.asarray(rr.pin_lattice.xy, dtype=float)
        self.pin_key = []
        self.pin_ok = True
        for i in range(len(pxy)):
            fq, fr = xy2lat(pxy[i], P)
            k = (int(round(fq)), int(round(fr)))
            if np.linalg.norm(lat2xy(k, P) - pxy[i]) > tol:
                self.pin_ok = False
            self.pin_key.append(k)
        self.pin_index = {k: i for i, k in enumerate(self.pin_key)}
        if len(self.pin_index) != len(self.pin_key):
            self.pin_ok = False
        # ---- coolant cells
        nc = sc.n_sc['coolant']['total']
        xy = np.asarray(sc.xy, dtype=float)
        self.key = [None] * len(xy)
        self.cent = [0] * len(xy)
        for i in range(nc):
            self.key[i], self.cent[i] = self._coolant_key(xy[i], pxy, tol)
        # ---- duct / bypass ring cells
        ext = {}  # (side, kind, tangential coord) -> coolant ext key
        self.ext_by_key = {}
        for i in range(nc):
            k = self.key[i]
            if k is not None and k[0] in (2, 3):
                self.ext_by_key[tuple(k)] = i
        ring = {}
        ftf = truth_ftf(rr)
        # expected apothems of the mid-thickness of every ring
        apo = []
        for d in range(self.ND):
            apo.append(0.25 * (ftf[d][0] + ftf[d][1]))
            if d + 1 < self.ND:
                apo.append(0.25 * (ftf[d][1] + ftf[d + 1][0]))
        self.apo = apo
        pending = []
        for i in range(nc, len(xy)):
            base, normal, ok = self._ring_base(xy[i], xy, tol)
            pending.append((i, base, normal, ok))
        # rank by normal coordinate among cells sharing a base
        groups = {}
        for (i, base, normal, ok) in pending:
            groups.setdefault(base, []).append((normal, i, ok))
        for base, lst in groups.items():
            lst.sort()
            for rank, (normal, i, ok) in enumerate(lst):
                rho = rank + 1
                if base is None:
                    self.key[i] = [0, 0, 0, 0]
                    self.cent[i] = 0
                    continue
                kind = base[0] + (2 if rho % 2 == 1 else 4)
                self.key[i] = [kind, rho, base[2], base[3]]
                good = ok and len(lst) == 2 * self.ND - 1
                if good and base[0] == 2:
                    good = abs(normal - apo[rank]) <= 1e-7 * apo[rank]
                self.cent[i] = 1 if good else 0

    # ------------------------------------------------------------------
    def _coolant_key(self, c, pxy, tol):
        d = np.linalg.norm(pxy - c, axis=1)
        dmin = d.min()
        near = np.where(d <= dmin + tol)[0]
        ks = [self.pin_key[i] for i in near]
        n = self.n
        if len(near) == 3:
            S = [sum(k[0] for k in ks), sum(k[1] for k in ks)]
            # mutually adjacent and centroid = mean
            adj = all(hexdist((a[0] - b[0], a[1] - b[1])) == 1
                      for a in ks for b in ks if a != b)
            mean = pxy[near].mean(axis=0)
            ok = adj and np.linalg.norm(mean - c) <= tol
            return [1, 0, S[0], S[1]], int(ok)
        if len(near) == 2:
            a, b = ks
            E = [a[0] + b[0], a[1] + b[1]]
            mid = pxy[near].mean(axis=0)
            out = c - mid
            tang = pxy[near[1]] - pxy[near[0]]
            ok = (hexdist((a[0] - b[0], a[1] - b[1])) == 1
                  and hexdist(a) == n and hexdist(b) == n
                  and abs(np.dot(out, tang)) <= tol * np.linalg.norm(tang)
                  and np.dot(out, mid) > 0)
            return [2, 0, E[0], E[1]], int(ok)
        if len(near) == 1:
            a = ks[0]
            out = c - pxy[near[0]]
            r = pxy[near[0]]
            cross = out[0] * r[1] - out[1] * r[0]
            corner = hexdist(a) == n and any(
                a == (n * dd[0], n * dd[1]) for dd in DIRS)
            ok = (corner and abs(cross) <= tol * np.linalg.norm(r)
                  and np.dot(out, r) > 0)
            if ok and self.r_corner is not None and n >= 1:
                ok = abs(np.linalg.norm(c) - self.r_corner) <= 1e3 * tol
            return [3, 0, a[0], a[1]], int(ok)
        return [0, 0, 0, 0], 0

    def _ring_base(self, c, xy, tol):
        """Which edge / corner coolant cell lies inside this duct or
        bypass cell: same tangential coordinate on the same hex side
        (edge) or on the same diagonal (corner)."""
        for kk, i in self.ext_by_key.items():
            if kk[0] != 3:
                continue
            e = xy[i]
            r = np.linalg.norm(e)
            u = e / r
            cross = c[0] * u[1] - c[1] * u[0]
            if abs(cross) <= 10 * tol and np.dot(c, u) > r:
                return kk, float(np.dot(c, u)), True
        for kk, i in self.ext_by_key.items():
            if kk[0] != 2:
                continue
            e = xy[i]
            ang = math.atan2(e[1], e[0])
            # outward normal of the hex side = nearest multiple of 60 deg
            k = round(ang / (math.pi / 3))
            nrm = np.array([math.cos(k * math.pi / 3),
                            math.sin(k * math.pi / 3)])
            tng = np.array([-nrm[1], nrm[0]])
            if (abs(np.dot(c - e, tng)) <= 10 * tol
                    and np.dot(c, nrm) > np.dot(e, nrm)):
                return kk, float(np.dot(c, nrm)), True
        return None, 0.0, False

    # ------------------------------------------------------------------
    def key_of(self, idx):
        if idx < 0 or idx >= len(self.key) or self.key[idx] is None:
            return [0, 0, 0, 0]
        return list(self.key[idx])


def sym_flags(rr, proj):
    """Six-fold and mirror symmetry of the published centroid set."""
    xy = np.asarray(rr.subchannel.xy, dtype=float)
    typ = np.asarray(rr.subchannel.type)
    tol = 1e-7 * dim(rr, 'pin_pitch')
    c, s = math.cos(math.pi / 3), math.sin(math.pi / 3)
    R = np.array([[c, -s], [s, c]])
    # mirror across the 60-degree axis
    a = math.pi / 3
    M = np.array([[math.cos(2 * a), math.sin(2 * a)],
                  [math.sin(2 * a), -math.cos(2 * a)]])
    ok6 = okm = True
    for t in np.unique(typ):
        pts = xy[typ == t]
        for T, name in ((R, 'r'), (M, 'm')):
            img = pts @ T.T
            # every image point must coincide with a point of the set
            for p in img:
                if np.min(np.linalg.norm(pts - p, axis=1)) > tol:
                    if name == 'r':
                        ok6 = False
                    else:
                        okm = False
                    break
    return int(ok6), int(okm)


def bundle_events(rr):
    """Event list for Trace_Bundle from a constructed RoddedRegion."""
    sc = rr.subchannel
    proj = Projection(rr)
    N, ND = dim(rr, 'n_ring'), dim(rr, 'n_duct')
    nc = sc.n_sc['coolant']['total']
    ev = []
    typ = np.asarray(sc.type)
    adj = np.asarray(sc.sc_adj)
    rev = np.asarray(sc.rev_pin_adj)
    for i in range(len(typ)):
        row = [int(x) for x in adj[i] if x >= 0]
        o = {'e': 'Cell', 'k': proj.key_of(i), 'typ': int(typ[i]) + 1,
             'nb': [proj.key_of(j) for j in row],
             'pins': [], 'cent': int(proj.cent[i]),
             'next': [0, 0, 0, 0], 'prev': [0, 0, 0, 0],
             'donorCW': [0, 0, 0, 0], 'donorCCW': [0, 0, 0, 0], 'f12': 0,
             'idx': i}
        if i < nc:
            o['pins'] = [list(proj.pin_key[p]) for p in rev[i] if p >= 0]
            f = float(rr._q_p2sc[i]) * 12
            o['f12'] = int(round(f)) if abs(f - round(f)) < 1e-9 else 0
            if typ[i] in (1, 2):
                o['prev'] = proj.key_of(int(adj[i][3]))
                o['next'] = proj.key_of(int(adj[i][4]))
                # donor the solver would use for either wire direction
                o['donorCW'] = proj.key_of(int(adj[i][3]))
                o['donorCCW'] = proj.key_of(int(adj[i][4]))
        ev.append(o)
    # which column the solver really reads for this region's wire direction
    padj = np.asarray(sc.pin_adj)
    nbp = np.asarray(rr.pin_lattice.adj)
    for p in range(dim(rr, 'n_pin')):
        cells = [int(x) for x in padj[p] if x >= 0]
        fsum = float(sum(rr._q_p2sc[c] for c in cells))
        f12 = 12 if abs(fsum - 1.0) < 1e-9 else int(round(fsum * 12 + 1000)) - 1000
        if f12 == 12 and abs(fsum - 1.0) >= 1e-9:
            f12 = 0
        ev.append({'e': 'Pin', 'p': list(proj.pin_key[p]),
                   'cells': [proj.key_of(c) for c in cells], 'f12': f12,
                   'nbpins': [list(proj.pin_key[x - 1]) for x in nbp[p]
                              if x > 0],
                   'idx': p})
    # ---- areas (quanta of the inner-hexagon area)
    ftf = truth_ftf(rr)
    hexa = S3 / 2 * ftf[0][0] ** 2
    D, Dw = dim(rr, 'pin_diameter'), dim(rr, 'wire_diameter')
    ct = math.cos(rr.params['theta'])
    A = rr.params['area']
    cool = float(sum(A[t] for t in typ[:nc]))
    scale = 4 * hexa * max(1.0, (ftf[-1][1] / ftf[0][0]) ** 2)
    duct = []
    for d in range(ND):
        duct.append([q(float(np.sum(rr.area['duct_mw'][d])), scale),
                     q(S3 / 2 * (ftf[d][1] ** 2 - ftf[d][0] ** 2), scale)])
    byp = []
    for b in range(ND - 1):
        byp.append([q(float(np.sum(rr.area['coolant_byp'][b])), scale),
                    q(S3 / 2 * (ftf[b + 1][0] ** 2 - ftf[b][1] ** 2), scale)])
        byp.append([q(float(rr.bypass_params['total area'][b]), scale),
                    q(S3 / 2 * (ftf[b + 1][0] ** 2 - ftf[b][1] ** 2), scale)])
    region = [[q(float(np.sum(rr.area['coolant_int'])), scale), q(cool, scale)],
              [q(float(rr.total_area['coolant_int']), scale), q(cool, scale)]]
    for d in range(ND):
        region.append([q(float(rr.duct_params['total area'][d]), scale),
                       duct[d][1]])
    pos = (np.all(np.asarray(A) > 0) and np.all(rr.area['duct_mw'] > 0)
           and (ND == 1 or np.all(rr.area['coolant_byp'] > 0)))
    ev.append({'e': 'Areas', 'cool': q(cool, scale),
               'pins': q(dim(rr, 'n_pin') * math.pi * D * D / 4, scale),
               'wire': q(dim(rr, 'n_pin') * math.pi * Dw * Dw / 4 / ct, scale),
               'hex': q(hexa, scale),
               'bundleArea': q(float(rr.bundle_params['area']), scale),
               'duct': duct, 'byp': byp, 'regionArea': region,
               'positive': int(bool(pos)), 'tol': 4})
    s6, sm = sym_flags(rr, proj)
    n_sc = sc.n_sc
    ev.append({'e': 'Seal', 'nInt': int(n_sc['coolant']['interior']),
               'nEdge': int(n_sc['coolant']['edge']),
               'nCorner': int(n_sc['coolant']['corner']),
               'nDuct': int(n_sc['duct']['total']),
               'nByp': int(n_sc['bypass']['total']),
               'nTotal': int(n_sc['total']), 'nPin': int(dim(rr, 'n_pin')),
               'sym6': s6, 'mirror': sm,
               'pinLattice': int(proj.pin_ok)})
    return ev, proj

"""Energy-ledger observer: per-step, per-assembly heat terms derived
independently of the code's own tallies (enthalpy from temperatures and
flows, wall heat from surface temperatures, film coefficients and
perimeters), plus the code's tallies, as events for Trace_March.tla."""
import numpy as np

from .common import q, MachineryError
from . import drive
from .drive import qT, Observer

R_TOT = 64   # ratio sweep-scale / step-scale


class LedgerObs(Observer):
    def __init__(self, reactor, const, case=None):
        self.r = reactor
        self.const = const
        self.case = case
        self.ev = []
        n = len(reactor.assemblies)
        ptot = float(sum(abs(a.total_power) for a in reactor.assemblies))
        # energy scale: total power, or (zero-power problems) m cp * 10 K
        mcp = 0.0
        for a in reactor.assemblies:
            mcp += a.flow_rate * a.active_region.coolant.heat_capacity
        self.SEt = 4.0 * max(ptot, mcp * 10.0, 1.0)
        if case is not None and case.get('_power_scale') and ptot > 0.0:
            # power-only cases (C03, very small absolute powers): the quantum
            # follows the assigned power itself, so that the power clauses
            # are not vacuous below 1 W (seed C03-14); the energy clauses of
            # such a case are roundoff of m cp dT and are not C03's
            self.SEt = 4.0 * ptot
        self.SEs = self.SEt / R_TOT
        self.H = np.zeros(n)     # running totals (double)
        self.Q = np.zeros(n)
        self.G = np.zeros(n)
        self.W = np.zeros(n)
        self.O = np.zeros(n)
        self.Hgap = 0.0
        self.Cgap = np.zeros(n)
        self.pending = np.zeros(n)
        self.clipped = 0
        self.inlet = float(reactor.inlet_temp)
        self.kind = [None] * n
        self.dzprev = [None] * n

    def qs(self, x):
        v = q(float(x), self.SEs)
        if abs(v) >= (1 << 30):
            self.clipped += 1
        return v

    def qt(self, x):
        v = q(float(x), self.SEt)
        if abs(v) >= (1 << 30):
            self.clipped += 1
        return v

    # ------------------------------------------------------------------
    def on_step0(self, ai, asm, t_gap, h_gap, adiabatic):
        self.ev.append({'e': 'Step0', 'a': ai + 1})

    @staticmethod
    def _msum(asm, reg):
        m_int, m_byp = drive.sc_mass_flows(reg)
        tot = float(np.sum(m_int)) + (float(np.sum(m_byp))
                                      if m_byp is not None else 0.0)
        return int(round(tot / float(asm.flow_rate) * 16777216))

    def on_asm(self, ai, asm, pre, dz, t_gap, h_gap, power, adiabatic):
        reg = pre.reg
        if asm.active_region is not reg:
            raise MachineryError('active region changed inside calculate')
        post = reg.temp
        mat = reg.coolant
        const = self.const
        m_int, m_byp = drive.sc_mass_flows(reg)
        T0 = pre.temp['coolant_int']
        T1 = post['coolant_int']

        def stream_dh(mv, Ta, Tb):
            """enthalpy-flow rise of one mixing stream. Constant
            properties: sum m_i cp dT_i. Temperature-dependent: on the
            mixed-mean temperature of the stream, with the material's own
            cp(T) integrated exactly; returns (dH, lag bound)."""
            mv = np.ravel(mv)
            Ta = np.ravel(Ta)
            Tb = np.ravel(Tb)
            if const:
                return float(np.sum(mv * mat.heat_capacity * (Tb - Ta))), 0.0
            mt = float(np.sum(mv))
            ta = float(np.dot(mv, Ta) / mt)
            tb = float(np.dot(mv, Tb) / mt)
            d = mt * drive.enthalpy_rise(mat, ta, tb, False)
            ca = drive.mat_props(mat, ta).heat_capacity
            cb = drive.mat_props(mat, tb).heat_capacity
            return d, abs(cb - ca) * mt * abs(tb - ta)
        dH, lagbound = stream_dh(m_int, T0, T1)
        perims = drive.duct_perims(reg)
        wall = 0.0
        if reg.is_rodded:
            kind = 'rod'
            nint = reg.subchannel.n_sc['coolant']['interior']
            typ = reg.subchannel.type[nint:reg.subchannel.n_sc['coolant']['total']]
            h = pre.htc_int[typ]
            Tc = T0[nint:]
            if reg._conv_approx:
                dm = reg.duct.clone()
                dm.update(float(reg.avg_duct_mw_temp[0]))
                R = 1.0 / h + 0.5 * reg.d['wall'][0] / dm.thermal_conductivity
                w0 = perims[0] / R * (post['duct_mw'][0] - Tc)
            else:
                w0 = h * perims[0] * (post['duct_surf'][0, 0] - Tc)
            wall += float(np.sum(w0)) * dz
            if reg.n_bypass > 0 and np.sum(reg.byp_flow_rate) > 0:
                Tb0 = pre.temp['coolant_byp']
                Tb1 = post['coolant_byp']
                for b in range(reg.n_bypass):
                    d_b, l_b = stream_dh(m_byp[b], Tb0[b], Tb1[b])
                    dH += d_b
                    lagbound += l_b
                dtyp = reg._duct_idx
                for b in range(reg.n_bypass):
                    hb = pre.htc_byp[b][dtyp]
                    if reg._conv_approx:
                        dm = reg.duct.clone()
                        dm.update(float(reg.avg_duct_mw_temp[b]))
                        R1 = 1 / hb + 0.5 * reg.d['wall'][b] / dm.thermal_conductivity
                        dm.update(float(reg.avg_duct_mw_temp[b + 1]))
                        R2 = 1 / hb + 0.5 * reg.d['wall'][b + 1] / dm.thermal_conductivity
                        win = perims[b] / R1 * (post['duct_mw'][b] - Tb0[b])
                        wout = perims[b + 1] / R2 * (post['duct_mw'][b + 1] - Tb0[b])
                    else:
                        win = hb * perims[b] * (post['duct_surf'][b, 1] - Tb0[b])
                        wout = hb * perims[b + 1] * (post['duct_surf'][b + 1, 0] - Tb0[b])
                    wall += float(np.sum(win) + np.sum(wout)) * dz
            eb_duct = float(np.sum(reg.ebal['duct'] - pre.ebal['duct']))
            if 'duct_byp_in' in reg.ebal and np.sum(reg.byp_flow_rate) > 0:
                eb_duct += float(np.sum(reg.ebal['duct_byp_in']
                                        - pre.ebal['duct_byp_in'])
                                 + np.sum(reg.ebal['duct_byp_out']
                                          - pre.ebal['duct_byp_out']))
            Tso = post['duct_surf'][-1, 1]
        else:
            kind = reg.model if reg.model == '6node' else 'simple'
            # the un-rodded models refresh their parameters at the start of
            # the step they are used in: the coefficient of this step is the
            # one found after the call
            hh = reg.coolant_params['htc']
            if not adiabatic:
                if kind == '6node':
                    # coolant is advanced first, with the previous wall
                    Ts = pre.temp['duct_surf'][0, 0]
                    Tmw = pre.temp['duct_mw'][0]
                else:
                    Ts = post['duct_surf'][0, 0]
                    Tmw = post['duct_mw'][0]
                if reg._conv_approx:
                    dm = reg.duct.clone()
                    dm.update(float(reg.avg_duct_mw_temp[0]))
                    R = 1 / hh + 0.5 * reg.duct_thickness / dm.thermal_conductivity
                    w0 = perims[0] / R * (Tmw - T0)
                else:
                    w0 = hh * perims[0] * (Ts - T0)
                wall += float(np.sum(w0)) * dz
            eb_duct = float(np.sum(reg.ebal['duct'] - pre.ebal['duct']))
            Tso = post['duct_surf'][0, 1]
        # heat leaving the outer duct through its outer surface
        if adiabatic:
            duct_out = 0.0
        else:
            hg = np.asarray(h_gap, dtype=float)
            if hg.shape[0] == 2 and reg.is_rodded:
                hg = hg[reg._duct_idx]
            duct_out = float(np.sum(hg * perims[-1] * (Tso - t_gap))) * dz
        pw = power or {}
        qp = {k: (0.0 if pw.get(k) is None else float(np.sum(pw[k])) * dz)
              for k in ('pins', 'cool', 'duct', 'refl')}
        pd = {k: float(asm._power_delivered[k] - pre.pd[k])
              for k in ('pins', 'cool', 'duct', 'refl')}
        eb_power = float(reg.ebal['power'] - pre.ebal['power'])
        self.H[ai] += dH
        self.Q[ai] += qp['pins'] + qp['cool'] + qp['refl']
        self.G[ai] += qp['duct']
        self.W[ai] += wall
        self.O[ai] += duct_out
        self.pending[ai] = duct_out
        wall_lag_dz = self.dzprev[ai]
        self.kind[ai] = kind
        allT = [T1] + ([post['coolant_byp']] if (reg.is_rodded and
                reg.n_bypass > 0 and np.sum(reg.byp_flow_rate) > 0) else [])
        allT0 = [T0] + ([pre.temp['coolant_byp']] if len(allT) > 1 else [])
        # lag bound: |d cp / cp| over the step times the heat moved
        lagb = 0 if const else self.qs(lagbound) + 2
        self.dzprev_next = dz
        self.ev.append({
            'e': 'AsmStep', 'a': ai + 1, 'k': self.k, 'r': int(pre.ridx),
            'mSum': self._msum(asm, reg),
            'kind': kind, 'cls': 'const' if const else 'lag',
            'adia': int(bool(adiabatic)),
            'dH': self.qs(dH), 'qPins': self.qs(qp['pins']),
            'qCool': self.qs(qp['cool']), 'qRefl': self.qs(qp['refl']),
            'qDuct': self.qs(qp['duct']), 'wallIn': self.qs(wall),
            'ductOut': self.qs(duct_out),
            # six-node lag: wall heat rescaled to the previous step length
            'wallInLag': self.qs(wall * (self.dzprev[ai] / dz if self.dzprev[ai] else 1.0)),
            'ebPower': self.qs(eb_power), 'ebDuct': self.qs(eb_duct),
            'pdPins': self.qs(pd['pins']), 'pdCool': self.qs(pd['cool']),
            'pdDuct': self.qs(pd['duct']), 'pdRefl': self.qs(pd['refl']),
            'lagB': lagb,
            'HTot': self.qt(self.H[ai]), 'QTot': self.qt(self.Q[ai]),
            'GTot': self.qt(self.G[ai]), 'WTot': self.qt(self.W[ai]),
            'OTot': self.qt(self.O[ai]),
            'minT': qT(min(float(np.min(t)) for t in allT)),
            'maxT': qT(max(float(np.max(t)) for t in allT)),
            'preMin': qT(min(float(np.min(t)) for t in allT0)),
            'preMax': qT(max(float(np.max(t)) for t in allT0)),
            'inT': qT(self.inlet),
            'pos': int(all(v >= 0 for v in qp.values())),
            'zero': int(all(v == 0 for v in qp.values()))})
        self.dzprev[ai] = dz

    def on_gap(self, core, pre_t, pre_e, dz, t_duct):
        if core.model != 'flow':
            self.ev.append({'e': 'GapOther', 'k': self.k,
                            'model': str(core.model)})
            return
        gc = core.gap_coolant
        m = core._sc_mfr
        Tn = core.coolant_gap_temp
        if self.const:
            dHg = float(np.sum(m * gc.heat_capacity * (Tn - pre_t)))
        else:
            dHg = float(sum(mi * drive.enthalpy_rise(gc, a, b, False)
                            for mi, a, b in zip(m, pre_t, Tn)))
        adj = core._asm_sc_adj
        h = core.coolant_gap_params['htc'][adj - 1]
        Told = pre_t[adj - 1]
        wp = core.gap_params['asm wp']
        cred = h * wp * (t_duct - Told) * dz
        cred = np.where(adj > 0, cred, 0.0)
        credit = np.sum(cred, axis=1)
        eb = np.sum(np.where(adj > 0, core.ebal['asm'] - pre_e, 0.0), axis=1)
        self.Hgap += dHg
        self.Cgap += credit
        lagged = [1 if kd == '6node' else 0 for kd in self.kind]
        self.ev.append({
            'e': 'Gap', 'k': self.k, 'dHgap': self.qs(dHg),
            'credit': [self.qs(c) for c in credit],
            'ebAsm': [self.qs(c) for c in eb],
            'pend': [self.qs(c) for c in self.pending],
            'lagged': lagged,
            'HgapTot': self.qt(self.Hgap),
            'CTot': [self.qt(c) for c in self.Cgap],
            'minT': qT(float(np.min(Tn))), 'maxT': qT(float(np.max(Tn))),
            'inT': qT(self.inlet)})

    def on_region(self, ai, asm, pre, z):
        new = asm.active_region
        self.ev.append({
            'e': 'Region', 'a': ai + 1, 'k': self.k, 'frm': int(pre.ridx),
            'to': int(asm.active_region_idx),
            'tBefore': qT(float(pre.tmix)),
            'tAfter': qT(float(new.avg_coolant_temp)),
            'tMin': qT(float(np.min(new.temp['coolant_int']))),
            'tMax': qT(float(np.max(new.temp['coolant_int'])))})

    def expected_totals(self):
        """Per-assembly power the input file assigns, integrated
        independently of dassh.power: exact cell integrals of the CSV
        polynomials, then the requested normalisation and scaling."""
        from . import cases
        c = self.case
        r = self.r
        if c is None or not c.get('power'):
            return [self.qt(float(a.total_power)) for a in r.assemblies]
        raw = {}
        for aid, p in c['power'].items():
            tot = 0.0
            z = p['z']
            for comp in ('pins', 'duct', 'cool'):
                arr = p.get(comp)
                if arr is None:
                    continue
                for ci in range(len(z) - 1):
                    for co in arr[ci]:
                        tot += cases.cell_integral(co, z[ci], z[ci + 1])
            raw[int(aid)] = tot
        total = sum(raw.values())
        f = 1.0
        if c.get('total_power') is not None:
            f = (float(c['total_power']) / total) if total > 0 else 0.0
        f *= float(c.get('power_scaling_factor') or 1.0)
        out = []
        for a in r.assemblies:
            out.append(self.qt(raw.get(a.id + 1, 0.0) * f))
        return out

    def end_step(self, k):
        self.ev.append({'e': 'EndStep', 'k': k})

    def finish(self, rec):
        r = self.r
        self.ev.append({
            'e': 'Finish',
            'H': [self.qt(x) for x in self.H],
            'Q': [self.qt(x) for x in self.Q],
            'G': [self.qt(x) for x in self.G],
            'O': [self.qt(x) for x in self.O],
            'Hgap': self.qt(self.Hgap),
            'assigned': [self.qt(float(a.total_power)) for a in r.assemblies],
            'delivered': [self.qt(float(sum(a._power_delivered.values())))
                          for a in r.assemblies],
            'coreTotal': self.qt(float(r.total_power)),
            'expected': self.expected_totals(),
            'clipped': int(self.clipped)})

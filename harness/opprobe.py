"""Operator probes: extract the affine update operator the real code applies
(unit vectors in, columns out) and have TLC judge it (spec/Trace_Op.tla)."""
import copy
import re
from concurrent.futures import ThreadPoolExecutor

import numpy as np

from . import common, cases, scenarios, drive
from . import bundle_struct as bs
from .common import MachineryError

ONE = 1 << 27
EPS = 1e-15    # entries below this are structural zeros

PROP_CLAUSES = {
    'C01': {'ExchangeConservesEnergy', 'SupportWithinAdjacency',
            'EveryNeighbourCoupled'},
    'C02': {'ExchangeConservesEnergy'},
    'C04': {'WeightsNonNegative', 'WallWeightNonNegative', 'RowSumsToOne',
            'StepLimitKeepsWeightsNonNegative', 'StepLimitPositive',
            'EverySubchannelTypeHasALimit'},
    'C07': {'SwirlDonorByWireDirection', 'SupportWithinAdjacency',
            'EveryNeighbourCoupled'},
}


def qw(x):
    """operator entry in units of 2^-27, clipped to +-1.5 so that TLC can add
    a row without 32-bit overflow (legitimate weights lie in [0, 1])."""
    x = float(x)
    if not np.isfinite(x):
        x = -1.5
    x = max(-1.5, min(1.5, x))
    return int(round(x * ONE))


class saved_state:
    """Save / restore the mutable state a probe touches."""

    def __init__(self, obj, names):
        self.obj = obj
        self.names = names

    def __enter__(self):
        self.saved = {n: copy.deepcopy(getattr(self.obj, n))
                      for n in self.names}
        return self

    def __exit__(self, *a):
        for n, v in self.saved.items():
            setattr(self.obj, n, v)
        return False


def probe_matrix(n, nwall, apply, base=0.0):
    """apply(T (n,), Tw scalar) -> T' (n,).  Probes around the uniform
    state T = Tw = base.  Returns W (n x n), wall (n,), source (n,)."""
    b = np.full(n, float(base))
    src = apply(b, base)
    W = np.zeros((n, n))
    for j in range(n):
        e = b.copy()
        e[j] += 1.0
        W[:, j] = apply(e, base) - src
    wall = apply(b, base + 1.0) - src
    return W, wall, src - base


class frozen_duct:
    """Evaluate duct properties at a fixed temperature during a probe."""

    def __init__(self, reg, T):
        self.reg = reg
        self.T = T

    def __enter__(self):
        orig = self.reg._update_duct
        T = self.T
        self.reg._update_duct = lambda temp: orig(T)

    def __exit__(self, *a):
        del self.reg._update_duct
        return False


def rows_cols_events(W, wall, m, keys, tol=4, swirl=None, full=None):
    n = W.shape[0]
    ev = []
    for i in range(n):
        nb = [[keys[j], qw(W[i, j])] for j in range(n)
              if j != i and abs(W[i, j]) > EPS]
        ev.append({'e': 'Row', 'k': keys[i], 'self': qw(W[i, i]), 'nb': nb,
                   'wall': qw(wall[i]), 'tol': tol,
                   'swirl': int(bool(swirl[i])) if swirl is not None else 0,
                   'full': int(bool(full)) if full is not None else 0})
    for j in range(n):
        if m[j] <= 0:
            continue
        rc = [[keys[i], qw(m[i] * W[i, j] / m[j])] for i in range(n)
              if i != j and abs(W[i, j]) > EPS]
        ev.append({'e': 'Col', 'k': keys[j], 'self': qw(W[j, j]), 'rc': rc,
                   'wall': qw(wall[j]), 'tol': tol})
    return ev


def true_limit(W, dz):
    """Largest step that keeps every self weight non-negative (self weight
    is linear in dz: W_ii = 1 - dz * S_i)."""
    S = (1.0 - np.diag(W)) / dz
    S = S[S > 0]
    if S.size == 0:
        return float('inf')
    return float(1.0 / S.max())


def qlen(x):
    """lengths (m) as integer nanometres, capped at 2^30 nm (1.07 m; the
    reactor never steps further than 1 cm)."""
    v = float(x) * 1e9
    if not np.isfinite(v) or v > (1 << 30):
        return 1 << 30
    return int(np.floor(v))


# ----------------------------------------------------------------------
def probe_rodded_interior(dassh, rr, dz, T, adiabatic=False):
    """Probe _calc_coolant_int_temp of a RoddedRegion at property
    temperature T and step dz."""
    n = rr.subchannel.n_sc['coolant']['total']
    with saved_state(rr, ['temp', 'ebal', 'coolant_int_params']):
        ct = rr.coolant.temperature
        rr._update_coolant_int_params(T, use_mat_tracker=False)
        nd = rr.temp['duct_surf'].shape[-1]

        def apply(Tv, Tw):
            rr.temp['coolant_int'] = np.array(Tv, dtype=float)
            rr.temp['duct_surf'][0, 0, :] = Tw
            rr.temp['duct_mw'][0, :] = Tw
            d = rr._calc_coolant_int_temp(dz, None, None, ebal=False)
            return rr.temp['coolant_int'] + d
        with frozen_duct(rr, T):
            W, wall, src = probe_matrix(n, nd, apply, base=T)
        m = np.array(rr.sc_mfr, dtype=float)
        swirl_on = rr.coolant_int_params['swirl'][1] > 0
        keff_on = True
        rr._update_coolant_int_params(ct, use_mat_tracker=False)
    return W, wall, src, m, swirl_on


def rodded_limits(dassh, rr, T):
    """Call region_rodded.calculate_min_dz(rr, T, T, adiabatic) and capture
    what its interior / bypass helpers returned and which per-signature
    constraint functions they evaluated."""
    mod = dassh.region_rodded
    called = []
    got = {}
    saved = {}
    for name in dir(mod):
        if re.fullmatch(r'_cons\d_\d+', name):
            f = getattr(mod, name)
            saved[name] = f

            def mk(f, name):
                def w(*a, **k):
                    called.append(name)
                    return f(*a, **k)
                return w
            setattr(mod, name, mk(f, name))
    o_int, o_byp = mod._calculate_int_dz, mod._calculate_byp_dz

    def w_int(*a, **k):
        r = o_int(*a, **k)
        got['int'] = r
        return r

    def w_byp(*a, **k):
        r = o_byp(*a, **k)
        got['byp'] = r
        return r
    mod._calculate_int_dz, mod._calculate_byp_dz = w_int, w_byp
    try:
        with saved_state(rr, ['coolant_int_params'] + (
                ['coolant_byp_params'] if rr.n_bypass > 0 else [])):
            mod.calculate_min_dz(rr, T, T,
                                 bool(getattr(rr, '_probe_adiabatic', False)))
    finally:
        mod._calculate_int_dz, mod._calculate_byp_dz = o_int, o_byp
        for name, f in saved.items():
            setattr(mod, name, f)
    out = {'int': (got['int'][0], got['int'][1],
                   [c for c in called if re.fullmatch(r'_cons[123]_\d+', c)])}
    if 'byp' in got:
        out['byp'] = (got['byp'][0], got['byp'][1], [])
    return out


def bundle_trace(dassh, rr, dz, T, label, tol=4):
    proj = bs.Projection(rr)
    n = rr.subchannel.n_sc['coolant']['total']
    keys = [proj.key_of(i) for i in range(n)]
    W, wall, src, m, swirl_on = probe_rodded_interior(dassh, rr, dz, T)
    typ = rr.subchannel.type[:n]
    swirl = [(t in (1, 2)) and swirl_on for t in typ]
    if getattr(rr, '_probe_adiabatic', False) and (
            rr.n_bypass == 0 or np.sum(rr.byp_flow_rate) == 0):
        # adiabatic outer wall: the wall surface temperature is the old
        # coolant temperature plus a source term, so the wall weight acts
        # on the cell's own previous temperature
        W = W + np.diag(wall)
        wall = np.zeros_like(wall)
    ev = rows_cols_events(W, wall, m, keys, tol=tol, swirl=swirl, full=True)
    # the limits the code derives for this region at this temperature,
    # captured from inside the public calculate_min_dz
    code_dz, code_sc, called = rodded_limits(dassh, rr, T)['int']
    sigs = []
    for name in sorted(set(called)):
        mm = re.fullmatch(r'_cons(\d)_(\d+)', name)
        nb = mm.group(2)
        sigs.append([int(mm.group(1)), nb.count('1'), nb.count('2'),
                     nb.count('3')])
    tl = true_limit(W, dz)
    ev.append({'e': 'Limit', 'codeLimit': qlen(code_dz),
               'trueLimit': qlen(tl * (1 + 1e-9)), 'tol': 1,
               'sc': str(code_sc)})
    ev.append({'e': 'Sigs', 'sigs': sigs})
    return {'label': label,
            'cfg': {'kind': 'bundle', 'N': int(rr.n_ring),
                    'wire': rr.wire_direction}, 'ev': ev}


def probe_bypass(dassh, rr, dz, T, label, tol=4):
    """Probe _calc_coolant_byp_temp (flowing bypass)."""
    out = []
    nb = rr.n_bypass
    nd = rr.subchannel.n_sc['bypass']['total']
    with saved_state(rr, ['temp', 'ebal', 'coolant_byp_params']):
        ct = rr.coolant.temperature
        rr._update_coolant_byp_params([T] * nb)
        for b in range(nb):
            state = {'out': False}

            def apply(Tv, Tw, b=b):
                rr.temp['coolant_byp'][:] = T
                rr.temp['coolant_byp'][b] = np.array(Tv, dtype=float)
                rr.temp['duct_surf'][:] = T
                rr.temp['duct_mw'][:] = T
                # inner wall of the bypass = duct b, outer wall = duct b+1
                which = b + 1 if state['out'] else b
                rr.temp['duct_surf'][which] = Tw
                rr.temp['duct_mw'][which] = Tw
                # property temperature must not follow the probe field
                orig = rr._update_coolant

                def frozen(temp):
                    orig(T)
                rr._update_coolant = frozen
                try:
                    d = rr._calc_coolant_byp_temp(dz, ebal=False)
                finally:
                    del rr._update_coolant
                return rr.temp['coolant_byp'][b] + d[b]
            with frozen_duct(rr, T):
                W, wall_in, src = probe_matrix(nd, nd, apply, base=T)
                state['out'] = True
                _, wall_out, _ = probe_matrix(nd, nd, apply, base=T)
            if getattr(rr, '_probe_adiabatic', False) and b + 1 == nb:
                # adiabatic outer duct: its inner surface follows the old
                # bypass coolant temperature (plus a source term)
                W = W + np.diag(wall_out)
                wall = wall_in
            else:
                wall = wall_in + wall_out
            m = (rr.byp_flow_rate[b] * rr.area['coolant_byp'][b]
                 / rr.total_area['coolant_byp'][b])
            keys = list(range(1, nd + 1))
            ev = rows_cols_events(W, wall, m, keys, tol=tol)
            tl = true_limit(W, dz)
            code_dz, code_sc, _ = rodded_limits(dassh, rr, T)['byp']
            ev.append({'e': 'Limit', 'codeLimit': qlen(code_dz),
                       'trueLimit': qlen(tl * (1 + 1e-9)), 'tol': 1,
                       'sc': str(code_sc)})
            out.append({'label': f'{label}-byp{b}',
                        'cfg': {'kind': 'bypass', 'N': int(rr.n_ring),
                                'wire': rr.wire_direction}, 'ev': ev})
        rr._update_coolant_byp_params([ct] * nb)
        rr._update_coolant(ct)
    return out


def probe_unrodded(dassh, reg, dz, T, label, tol=4, adiabatic=False):
    n = reg.temp['coolant_int'].shape[0]
    with saved_state(reg, ['temp', 'ebal', 'coolant_params']):
        ct = reg.coolant.temperature
        reg._update_coolant_params(T)

        def apply(Tv, Tw):
            reg.temp['coolant_int'] = np.array(Tv, dtype=float)
            reg.temp['duct_surf'][0, 0, :] = Tw
            reg.temp['duct_mw'][0, :] = Tw
            if reg.model == '6node':
                orig = reg._update_coolant_params

                def frozen(temp, *a, **k):
                    orig(T)
                reg._update_coolant_params = frozen
                try:
                    d = reg._calc_coolant_temp(dz, {'refl': 0.0}, adiabatic, False)
                finally:
                    del reg._update_coolant_params
            else:
                d = reg._calc_coolant_temp(dz, {'refl': 0.0}, adiabatic, False)
            return reg.temp['coolant_int'] + d
        with frozen_duct(reg, T):
            W, wall, src = probe_matrix(n, 6, apply, base=T)
        m, _ = drive.sc_mass_flows(reg)
        ev = rows_cols_events(W, wall, m, list(range(1, n + 1)), tol=tol)
        tl = true_limit(W, dz)
        if np.any(wall > 0):
            tl = min(tl, float(dz / (wall.max() + (1 - np.diag(W)).max())
                               ) if False else tl)
        code_dz, code_sc = dassh.region_unrodded.calculate_min_dz(
            reg, T, T, adiabatic)
        reg._update_coolant_params(ct)
    ev.append({'e': 'Limit', 'codeLimit': qlen(code_dz),
               'trueLimit': qlen(tl * (1 + 1e-9)), 'tol': 1,
               'sc': str(code_sc)})
    return {'label': label, 'cfg': {'kind': 'unrodded', 'N': 0,
                                    'wire': 'none'}, 'ev': ev}


def probe_gap_flow(dassh, core, dz, T, label, tol=4):
    n = core.n_sc
    shape = core._asm_sc_adj.shape
    with saved_state(core, ['coolant_gap_temp', 'coolant_gap_params']):
        ct = core.gap_coolant.temperature
        core._update_coolant_gap_params(T)

        def apply(Tv, Tw):
            core.coolant_gap_temp = np.array(Tv, dtype=float)
            td = np.full(shape, float(Tw))
            return core.coolant_gap_temp + core._flow_model(dz, td)
        W, wall, src = probe_matrix(n, 0, apply, base=T)
        m = np.array(core._sc_mfr, dtype=float)
        ev = rows_cols_events(W, wall, m, list(range(1, n + 1)), tol=tol)
        tl = true_limit(W, dz)
        code_dz = None
        core._update_coolant_gap_params(ct)
    code_dz, code_sc = dassh.core.calculate_min_dz(core, T, T)
    ev.append({'e': 'Limit', 'codeLimit': qlen(code_dz),
               'trueLimit': qlen(tl * (1 + 1e-9)), 'tol': 1,
               'sc': str(code_sc)})
    return {'label': label, 'cfg': {'kind': 'gap', 'N': 0, 'wire': 'none'},
            'ev': ev}


def probe_gap_map(dassh, core, label, tol=4):
    """no_flow / duct_average gap models: new gap temperatures as a map of
    (duct temperatures, previous gap temperatures)."""
    n = core.n_sc
    shape = core._asm_sc_adj.shape
    fn = core._noflow_model if core.model == 'no_flow' \
        else core._duct_average_model
    with saved_state(core, ['coolant_gap_temp']):
        def apply(Tv, Tw):
            core.coolant_gap_temp = np.array(Tv, dtype=float)
            td = np.full(shape, float(Tw))
            return np.array(fn(td), dtype=float)
        # duct_average: a zero duct temperature is "absent" for its
        # count_nonzero; probe around an offset instead
        if core.model == 'duct_average':
            base = apply(np.zeros(n), 1.0)
            wall = apply(np.zeros(n), 2.0) - base
            W = np.zeros((n, n))
            for j in range(n):
                e = np.zeros(n)
                e[j] = 1.0
                W[:, j] = apply(e, 1.0) - base
        else:
            W, wall, src = probe_matrix(n, 0, apply)
    ev = []
    for i in range(n):
        nb = [[j + 1, qw(W[i, j])] for j in range(n)
              if abs(W[i, j]) > EPS and j != i]
        ev.append({'e': 'Row', 'k': i + 1, 'self': qw(W[i, i]), 'nb': nb,
                   'wall': qw(wall[i]), 'tol': tol, 'swirl': 0, 'full': 0})
    return {'label': label, 'cfg': {'kind': 'gapmap', 'N': 0,
                                    'wire': 'none'}, 'ev': ev}


# ----------------------------------------------------------------------
def collect(dassh, label, case, d, temps=3):
    """All probes of one scenario: every region of every distinct assembly
    and the gap, at the reactor-chosen step."""
    inp, r = cases.build(dassh, case, d)
    if case.get('_near_planes'):
        # requested planes a little more than a whole number of steps after
        # a boundary: the step that lands on them must not be stretched
        c2 = copy.deepcopy(case)
        q = float(r.req_dz)
        b = [float(x) for x in r.axial_bnds[:-1]]
        c2.setdefault('setup', {})['axial_plane'] = [
            round(b[i % len(b)] + (n + f) * q, 9)
            for i, (n, f) in enumerate(((3, 0.04), (5, 0.08), (8, 0.55)))]
        inp, r = cases.build(dassh, c2, d + '-np')
    # the steps actually marched (all equal to the selected step, or shorter)
    dz = float(np.max(r.dz))
    out = []
    Tin = float(r.inlet_temp)
    seen = set()
    for ai, a in enumerate(r.assemblies):
        # distinct = type and flow rate (the update operator and the step
        # requirement depend on both)
        key = (a.name, round(float(a.flow_rate), 9))
        if key in seen:
            continue
        seen.add(key)
        Tout = float(a._estimated_T_out)
        Ts = np.linspace(Tin, Tout, temps)
        for ri, reg in enumerate(a.region):
            for ti, T in enumerate(Ts):
                lab = f'{label}/{a.name}#{ai}/r{ri}/T{ti}'
                if reg.is_rodded:
                    reg._probe_adiabatic = r._is_adiabatic
                    out.append(bundle_trace(dassh, reg, dz, float(T), lab))
                    if reg.n_bypass > 0 and np.sum(reg.byp_flow_rate) > 0:
                        out += probe_bypass(dassh, reg, dz, float(T), lab)
                else:
                    out.append(probe_unrodded(dassh, reg, dz, float(T), lab,
                                              adiabatic=r._is_adiabatic))
    core = r.core
    if core.model == 'flow':
        t_out = float(np.mean([a._estimated_T_out for a in r.assemblies]))
        for ti, T in enumerate(np.linspace(Tin, t_out, temps)):
            out.append(probe_gap_flow(dassh, core, dz, float(T),
                                      f'{label}/gap/T{ti}'))
    elif core.model in ('no_flow', 'duct_average'):
        out.append(probe_gap_map(dassh, core, f'{label}/gapmap'))
    return out, r


def probe_cases(rng, tier):
    lab = []
    sl = dict(scenarios.single_lattice(rng, tier))
    for k in ('rod2-adiabatic', 'rod3-flowgap', 'rod3-dd-flowbyp',
              'multi-simple', 'multi-6node', 'lowfi-6node',
              'rod2-convapprox', 'rod3-wirecw-mit', 'opt-se2geo',
              'opt-3duct-convapprox', 'opt-dd-regions-adiabatic-gravity',
              'opt-uctd-grid-regions', 'opt-delta-temp-bc-noflowgap',
              'opt-five-regions', 'opt-bare-kc', 'opt-htc-custom-dd',
              'opt-shapefactor-ct', 'opt-eng-se2-mit', 'opt-lowfi-cf-float'):
        lab.append((k, sl[k]))
    if tier == 'thorough':
        for k in ('rod4-adiabatic', 'rod5-dd', 'rod3-3duct', 'rod2-laminar',
                  'multi-dd-mixed'):
            lab.append((k, sl[k]))
    cl = scenarios.core_lattice(rng, tier)
    lab += cl[:2] if tier == 'quick' else cl
    # other gap models on a mixed core
    for gm in ('no_flow', 'duct_average'):
        c = copy.deepcopy(cl[0][1])
        c['gap_model'] = gm
        lab.append((f'{cl[0][0]}-{gm}', c))
    # one type at seven positions with very different flow rates: the step
    # requirement is a property of the position, not of the type
    A1 = scenarios.fitted_type(2, 0.060)
    p7 = scenarios.layout_positions(7)
    base = scenarios.flow_for(A1, 0.12)
    fl = [base * f for f in (1.0, 0.8, 0.5, 0.25, 0.12, 0.3, 0.06)]
    lab.append(('7-one-type-flows', scenarios.make_core(
        rng, {'A': A1}, [(r_, p_, 'A') for (r_, p_) in p7], fl,
        gap_model='flow', bypass_fraction=0.25)))
    for k in ('rod3-flowgap', 'rod2-adiabatic'):
        c = copy.deepcopy(sl[k])
        c['_near_planes'] = True
        lab.append((k + '-near-planes', c))
    # a core of low-fidelity assemblies only: the gap mesh has corner cells
    # only, and the cells between three assemblies bind the gap's step
    UL = scenarios.fitted_type(3, 0.060, use_low_fidelity_model=True,
                               low_fidelity_model='simple')
    lab.append(('7-all-lowfi-gap-limited', scenarios.make_core(
        rng, {'U': UL}, [(r_, p_, 'U') for (r_, p_) in p7],
        [scenarios.flow_for(UL, 0.1)] * 7, gap_model='flow',
        bypass_fraction=0.01)))
    # the step is limited by a tight un-rodded region that is followed by
    # a much looser one (the assembly's requirement is the minimum over its
    # regions, wherever the limiting one sits)
    tb = scenarios.bundle_type(2)
    tb['AxialRegion'] = {
        'plenum': dict(model='simple', vf_coolant=0.3, z_lo=0.3, z_hi=0.45,
                       hydraulic_diameter=0.0001),
        'handling': dict(model='simple', vf_coolant=0.6, z_lo=0.45,
                         z_hi=0.6)}
    tb['_rods'] = [0.0, 0.3]
    lab.append(('tight-region-below-open-one', scenarios.make_core(
        rng, {'a1': tb}, [(1, 1, 'a1')], [scenarios.flow_for(tb)],
        gap_model='flow', bypass_fraction=0.05, ncell=2,
        cell_bounds=[0.0, 0.3, 0.6])))
    # temperature-dependent coolant
    c = copy.deepcopy(sl['rod3-flowgap'])
    c['coolant'] = 'sodium'
    c['materials'] = {}
    lab.append(('rod3-sodium', c))
    return lab


def run_probes(res, tier, rng, focus, cases_override=None):
    dassh = common.import_dassh()
    traces = []
    d = common.workdir('probe')
    try:
        for label, case in (cases_override or probe_cases(rng, tier)):
            try:
                trs, r = collect(dassh, label, case, str(d / label),
                                 temps=(3 if tier == 'quick' else 5))
            except MachineryError:
                raise
            except BaseException as e:
                res.cov.setdefault('probe_build_failures', []).append(
                    {'case': label, 'exc': type(e).__name__,
                     'msg': str(e)[:160]})
                continue
            traces += trs
    finally:
        common.cleanup(d)
    if not traces:
        raise MachineryError('no operator probe could be taken')
    nsh = min(common.NCPU, len(traces))
    shards = [traces[i::nsh] for i in range(nsh)]

    def val(item):
        i, sh = item
        slim = [{'cfg': t['cfg'], 'ev': t['ev']} for t in sh]
        return common.tlc_traces('Trace_Op', 'Trace_Op.cfg', slim,
                                 tag=f'op{i}')
    with ThreadPoolExecutor(max_workers=nsh) as ex:
        outs = list(ex.map(val, enumerate(shards)))
    mine = PROP_CLAUSES[focus]
    for sh, out in zip(shards, outs):
        res.add_tlc(dict(out, ok=True), 'trace validation of operator probes')
        res.add_traces(len(sh))
        for tid, (v, l, info) in out['verdicts'].items():
            tr = sh[tid - 1]
            res.add_eval()
            res.distinct('probe:' + tr['label'])
            if v != 'accept':
                clauses = set(c.strip('" ') for c in
                              info.strip('{}').split(',') if c.strip())
                hit = clauses & mine
                if hit:
                    bad = tr['ev'][l - 1] if 0 < l <= len(tr['ev']) else None
                    res.violation(
                        f'probe={tr["label"].split("/T")[0]};kind='
                        f'{tr["cfg"]["kind"]};clauses={sorted(hit)}',
                        f'operator probe rejected at event {l}: '
                        f'{sorted(clauses)}',
                        {'probe': tr['label'], 'cfg': tr['cfg'],
                         'event': bad})
        common.cleanup(out['dir'])
    res.sample({'probe': traces[0]['label'], 'cfg': traces[0]['cfg'],
                'first_row': traces[0]['ev'][0]})
    res.cov['operator_probes'] = len(traces)

"""Run labelled cases through the real solver with the ledger observer and
have TLC validate the recorded sweeps against March.tla (Trace_March)."""
import os
import shutil
from concurrent.futures import ProcessPoolExecutor, ThreadPoolExecutor

from . import common, cases, drive, ledger
from .common import MachineryError

C01_CLAUSES = {'CoolantEnergyBalance', 'WallHeatBookkeeping', 'SweepBalance',
               'MixedMeanCarriedOver', 'NewRegionUniformAtMixedMean',
               'RegionsInOrder', 'PowerBookkeeping',
               'NodeFlowsSumToAssemblyFlow'}
C02_CLAUSES = {'DuctHeatEqualsGapCredit', 'GapConductionOnlyMovesHeat',
               'GapBookkeeping', 'CoreBalance', 'GapCreditEqualsDuctLoss',
               'AdiabaticMeansNoOuterFlux', 'AdiabaticCore',
               'DuctWallsStoreNoHeat', 'GapAfterAllAssemblies',
               'AssemblyBalance', 'PendingHeatObserved',
               'RegionChangeAfterGap'}
C03_CLAUSES = {'DeliveredEqualsAssigned', 'DeliveredIsSumOfSteps',
               'AssemblyTotalsSumToCorePower', 'PowerBookkeeping',
               'AssignedEqualsInputIntegral'}
C04_CLAUSES = {'NoUndershoot', 'NoNewExtremum'}
COMMON = {'StepOrder', 'LedgerAdvance', 'TotalsAsLogged',
          'SweepEndsAtPlaneBoundary', 'TraceEndsWithFinish',
          'QuantisationRange', 'SweepRuns'}


def record_case(args):
    """Worker: build and sweep one case, return its trace dict."""
    label, case, opts = args
    dassh = common.import_dassh()
    d = common.workdir('mc-' + label)
    try:
        try:
            kw = dict(opts.get('kw', {}))
            if '_tp' in case:
                # one time point of an input with several power files: the
                # model is built the way the driver builds it for that time
                # point; the input's own integral is that of its k-th file
                kw['timestep'] = int(case['_tp'])
            inp, r = cases.build(dassh, case, str(d), **kw)
        except BaseException as e:
            return {'label': label, 'cfg': {'nasm': 1, 'gap': 'none',
                                            'cls': 'const',
                                            'checkPower': False},
                    'ev': [{'e': 'Crash', 'stage': 'setup',
                            'exc': type(e).__name__, 'msg': str(e)[:200]}],
                    'meta': {'planes': 0}}
        const = all(drive.is_const_material(a.active_region.coolant)
                    for a in r.assemblies)
        lcase = case
        if '_tp' in case:
            lcase = dict(case, power=case['powers'][int(case['_tp'])])
        ob = ledger.LedgerObs(r, const, lcase)
        crashed = None
        try:
            with drive.Recorder(dassh, r, [ob]) as rec:
                rec.sweep(max_steps=opts.get('max_steps'))
        except BaseException as e:
            crashed = {'e': 'Crash', 'stage': 'sweep',
                       'exc': type(e).__name__, 'msg': str(e)[:200]}
        gm = r.core.model
        cfg = {'nasm': len(r.assemblies),
               'gap': 'none' if gm is None else ('flow' if gm == 'flow'
                                                 else 'other'),
               'cls': 'const' if const else 'lag',
               'checkPower': bool(opts.get('check_power', True)
                                  and opts.get('max_steps') is None)}
        ev = ob.ev
        if crashed:
            ev = ev + [crashed]
        return {'label': label, 'cfg': cfg, 'ev': ev,
                'meta': {'planes': len(r.z) - 1, 'dz': float(r.req_dz),
                         'SEt': ob.SEt,
                         'resid': [float(h - q_ - w) for h, q_, w in
                                   zip(ob.H, ob.Q, ob.W)],
                         'H': [float(x) for x in ob.H]}}
    finally:
        common.cleanup(d)


def run_cases(labelled, res, focus, opts=None, procs=None, extra=None):
    """labelled: list of (label, case). Returns list of (trace, verdict)."""
    opts = opts or {}
    jobs = [(lab, c, opts) for lab, c in labelled]
    procs = procs or min(common.NCPU, len(jobs))
    with ProcessPoolExecutor(max_workers=procs) as ex:
        traces = list(ex.map(record_case, jobs))
    return validate(traces, res, focus, labelled, extra)


def validate(traces, res, focus, labelled=None, extra=None):
    extra = extra or {}
    nsh = min(common.NCPU, len(traces))
    shards = [traces[i::nsh] for i in range(nsh)]

    def val(item):
        i, sh = item
        slim = [{'cfg': t['cfg'], 'ev': t['ev']} for t in sh]
        return common.tlc_traces('Trace_March', 'Trace_March.cfg', slim,
                                 tag=f'march{i}')
    with ThreadPoolExecutor(max_workers=nsh) as ex:
        outs = list(ex.map(val, enumerate(shards)))
    results = []
    case_of = dict(labelled) if labelled else {}
    for sh, out in zip(shards, outs):
        res.add_tlc(dict(out, ok=True), 'trace validation of recorded sweeps')
        res.add_traces(len(sh))
        for tid, (v, l, info) in out['verdicts'].items():
            tr = sh[tid - 1]
            res.add_eval()
            nontriv = any(e['e'] == 'AsmStep' and (e['dH'] != 0 or
                          e['wallIn'] != 0) for e in tr['ev'])
            res.distinct(tr['label'], nontriv)
            clauses = set(c.strip('" ') for c in info.strip('{}').split(',')
                          if c.strip())
            results.append((tr, v, l, clauses))
            if v != 'accept':
                mine = clauses & (focus | COMMON
                                  | set(extra.get(tr['label'], ())))
                bad = tr['ev'][l - 1] if 0 < l <= len(tr['ev']) else None
                for cl in sorted(mine):
                    res.violation(
                        f'case={tr["label"]};clause={cl}',
                        f'recorded sweep rejected (first failing event {l}): '
                        f'{sorted(clauses)}',
                        {'label': tr['label'],
                         'case': case_of.get(tr['label']),
                         'first_failing_event': bad})
                if mine:
                    pass
                else:
                    res.cov.setdefault('rejected_for_other_property', []
                                       ).append({'case': tr['label'],
                                                 'clauses': sorted(clauses)})
        common.cleanup(out['dir'])
    return results

"""Isolation observers (C06): object-graph ownership and per-step
non-interference digests."""
import types
import zlib

import numpy as np

from . import drive
from .drive import Observer

MAXDEPTH = 7


def _h(b):
    return zlib.crc32(b) & 0x3fffffff


def digest_obj(o):
    """Shallow digest of one object's own content."""
    if isinstance(o, np.ndarray):
        if o.dtype == object:
            return _h(repr(o.shape).encode())
        return _h(o.tobytes() + repr(o.shape).encode())
    if isinstance(o, dict):
        items = []
        for k in sorted(o, key=repr):
            v = o[k]
            if isinstance(v, (int, float, str, bool, type(None), np.generic)):
                items.append((repr(k), repr(v)))
            elif isinstance(v, np.ndarray) and v.dtype != object:
                items.append((repr(k), _h(v.tobytes())))
            else:
                items.append((repr(k), 'obj'))
        return _h(repr(items).encode())
    if isinstance(o, (list, tuple)):
        items = []
        for v in o:
            if isinstance(v, (int, float, str, bool, type(None), np.generic)):
                items.append(repr(v))
            elif isinstance(v, np.ndarray) and v.dtype != object:
                items.append(_h(v.tobytes()))
            elif isinstance(v, (list, tuple)):
                items.append(digest_obj(v))
            else:
                items.append('obj')
        return _h(repr(items).encode())
    d = getattr(o, '__dict__', None)
    if d is not None:
        return digest_obj({k: v for k, v in d.items()})
    return 0


def walk(root, skip_ids=()):
    """All mutable objects reachable from root: {id: (path, obj)}."""
    out = {}
    stack = [(root, 'asm', 0)]
    while stack:
        o, path, depth = stack.pop()
        if id(o) in out or id(o) in skip_ids:
            continue
        if isinstance(o, (int, float, str, bool, bytes, type(None),
                          np.generic, types.FunctionType, types.MethodType,
                          types.ModuleType, type, types.BuiltinFunctionType)):
            continue
        mod = getattr(type(o), '__module__', '')
        if isinstance(o, np.ndarray):
            out[id(o)] = (path, o)
            continue
        if isinstance(o, dict):
            out[id(o)] = (path, o)
            if depth < MAXDEPTH:
                for k, v in o.items():
                    stack.append((v, f'{path}[{k!r}]', depth + 1))
            continue
        if isinstance(o, (list, tuple)):
            if isinstance(o, list):
                out[id(o)] = (path, o)
            if depth < MAXDEPTH:
                for i, v in enumerate(o):
                    stack.append((v, f'{path}[{i}]', depth + 1))
            continue
        if mod.startswith('dassh') or mod == 'types':
            out[id(o)] = (path, o)
            if depth < MAXDEPTH:
                for k, v in getattr(o, '__dict__', {}).items():
                    # pin-model internals are re-evaluated immediately
                    # before every use and do not carry state between calls
                    if k in ('_logger', 'pin_model'):
                        continue
                    stack.append((v, f'{path}.{k}', depth + 1))
    return out


def observable_digest(asm):
    """Digest of everything another assembly's step must not change: the
    temperatures, correlated parameters, tallies and the material property
    values the assembly would read next."""
    parts = []
    for reg in asm.region:
        for k in sorted(reg.temp):
            parts.append(reg.temp[k].tobytes())
        for k in sorted(reg.ebal):
            parts.append(np.asarray(reg.ebal[k]).tobytes())
        parts.append(repr(sorted(reg._pressure_drop.items())).encode())
        for name in ('coolant_int_params', 'coolant_byp_params',
                     'coolant_params'):
            d = getattr(reg, name, None)
            if d is not None:
                parts.append(repr(digest_obj(d)).encode())
        for mname in ('coolant', 'duct'):
            m = getattr(reg, mname, None)
            if m is not None:
                parts.append(repr((m.temperature, m.heat_capacity, m.density,
                                   m.thermal_conductivity,
                                   getattr(m, '_viscosity', None))).encode())
        tr = getattr(reg, '_coolant_tracker', None)
        if tr is not None:
            parts.append(repr(digest_obj(tr)).encode())
        if hasattr(reg, 'pin_temps'):
            parts.append(reg.pin_temps.tobytes())
    parts.append(repr(asm._peak['cool']).encode())
    parts.append(repr(asm._pressure_drop).encode())
    parts.append(repr(sorted(asm._power_delivered.items())).encode())
    return _h(b'|'.join(parts))


class IsoObs(Observer):
    def __init__(self, reactor, every=1):
        self.r = reactor
        self.ev = []
        self.every = every
        self._before = None

    def pre_digests(self):
        return [observable_digest(a) for a in self.r.assemblies]


def install_step_digests(rec_cls, dassh, reactor, ev, every=1):
    """Wrap Assembly.calculate (on top of drive.Recorder's wrapper) to take
    digests of all OTHER assemblies before and after the call."""
    A = dassh.assembly.Assembly
    orig = A.calculate
    asms = reactor.assemblies
    count = [0]

    def calculate(self, *a, **kw):
        try:
            ai = next(i for i, x in enumerate(asms) if x is self)
        except StopIteration:
            return orig(self, *a, **kw)
        count[0] += 1
        take = (count[0] % every == 0)
        if take:
            before = [observable_digest(x) for i, x in enumerate(asms)
                      if i != ai]
        try:
            return orig(self, *a, **kw)
        finally:
            if take:
                after = [observable_digest(x) for i, x in enumerate(asms)
                         if i != ai]
                ev.append({'e': 'Step', 'a': ai + 1, 'before': before,
                           'after': after})
    A.calculate = calculate
    return lambda: setattr(A, 'calculate', orig)


def ownership_events(dassh, reactor, probe_steps=6):
    """Own events: per assembly, ids of reachable mutable objects whose
    content changed during a short probe sweep."""
    r = reactor
    graphs = [walk(a) for a in r.assemblies]
    before = [{i: digest_obj(o) for i, (p, o) in g.items()} for g in graphs]
    r.axial_step0()
    n = min(len(r.z), probe_steps + 1)
    for k in range(1, n):
        r.axial_step(r.z[k], r.dz[k - 1], k)
    idmap = {}
    ev = []
    shared_paths = {}
    for ai, g in enumerate(graphs):
        ids = []
        for i, (p, o) in g.items():
            if digest_obj(o) != before[ai][i]:
                idmap.setdefault(i, len(idmap) + 1)
                ids.append(idmap[i])
                shared_paths.setdefault(idmap[i], []).append((ai + 1, p))
        ev.append({'e': 'Own', 'a': ai + 1, 'ids': sorted(ids)})
    shared = {k: v for k, v in shared_paths.items() if len(v) > 1}
    return ev, shared

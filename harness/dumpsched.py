"""Dump-schedule observer (specification growth beyond the listed
properties): one event per axial step at the real decision point, and the
rows actually found in the dump files."""
import os

import numpy as np

from . import common, cases

TICK = 1e-7


def tk(x):
    return int(round(float(x) / TICK))


def record(args):
    label, case = args
    dassh = common.import_dassh()
    d = common.workdir('dump-' + label)
    try:
        inp, r = cases.build(dassh, case, str(d), write_output=True)
        ev = []
        orig = r._determine_whether_to_dump_data

        def decide(z, dz):
            res = orig(z, dz)
            ev.append({'e': 'Step', 'z': tk(z), 'dz': tk(dz),
                       'dump': 1 if res else 0})
            return res
        r._determine_whether_to_dump_data = decide
        intv = r._options['dump']['interval']
        tr = {'label': label, 'intv': 0 if intv is None else tk(intv),
              'bnds': [tk(b) for b in r.axial_bnds], 'ev': ev}
        try:
            r.temperature_sweep()
        except BaseException as e:
            ev.append({'e': 'Crash', 'exc': type(e).__name__,
                       'msg': str(e)[:120]})
            return tr
        nfiles = 0
        for f in sorted(os.listdir(str(d))):
            if not (f.startswith('temp_coolant_int') or
                    f.startswith('temp_average')):
                continue
            arr = np.loadtxt(os.path.join(str(d), f), delimiter=',', ndmin=2)
            zs = sorted({tk(z) for z in arr[:, 1]})
            nasm = len(r.assemblies)
            complete = 1
            for z in zs:
                ids = arr[np.round(arr[:, 1] / TICK) == z][:, 0]
                if sorted(int(i) for i in ids) != list(range(nasm)):
                    complete = 0
            ev.append({'e': 'Rows', 'file': f, 'zs': zs,
                       'complete': complete})
            nfiles += 1
        tr['nfiles'] = nfiles
        return tr
    finally:
        common.cleanup(d)

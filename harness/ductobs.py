"""Duct-wall observer: one Slab event per call of the solver's duct routine
(RoddedRegion._calc_duct_temp, SingleNode/MultiNodeHomogeneous
._calc_duct_temp) and per duct, with fluxes derived independently from the
boundary data the routine was given and the temperatures it reported."""
import numpy as np

from .common import q, QMAX
from . import drive
from .drive import qT

MAXCELLS = 30


def tag_walls(r, case):
    """Attach to every region of a reactor the duct flat-to-flat values of
    its assembly type as given in the input, so that wall thicknesses come
    from the input rather than from what the region recorded."""
    for a in r.assemblies:
        t = case['types'].get(a.name)
        if t is None:
            continue
        for reg in a.region:
            reg._verif_walls = sorted(float(x) for x in t['duct_ftf'])


def wall_thickness(reg, i=None):
    """Thickness of duct wall i (None: the outermost wall) from the input
    if known, else from the region."""
    w = getattr(reg, '_verif_walls', None)
    if w is None:
        if i is None:
            return float(reg.duct_thickness)
        return float(reg.duct_params['thickness'][i])
    if i is None:
        return (w[-1] - w[-2]) / 2
    return (w[2 * i + 1] - w[2 * i]) / 2


def _pick(n):
    if n <= MAXCELLS:
        return list(range(n))
    step = max(1, n // MAXCELLS)
    idx = set(range(0, n, step))
    return sorted(idx)


class DuctRecorder:
    """Context manager wrapping the duct routines of both region kinds."""

    def __init__(self, dassh, flux_scale):
        self.dassh = dassh
        self.ev = []
        self.scale = flux_scale
        self.tscale = 4096.0     # K, for temperature differences
        self._saved = []
        self.clipped = 0
        self._own_htc = {}
        self.p_truth = None
        # recorded sweeps: bypass film coefficients re-evaluated per region
        # (generated states set them directly and switch this off)
        self.use_own_htc = False

    def qf(self, x):
        v = q(float(x), self.scale)
        if abs(v) >= QMAX:
            self.clipped += 1
        return v

    def __enter__(self):
        d = self.dassh
        rec = self
        RR = d.region_rodded.RoddedRegion
        SN = d.region_unrodded.SingleNodeHomogeneous
        o_rr = RR._calc_duct_temp
        o_sn = SN._calc_duct_temp

        def rr_calc(self, p_duct, t_gap, htc_gap, adiabatic=False):
            # the heating the caller specifies: its own record if it keeps
            # one (generated states), else the array as handed over
            p_given = (rec.p_truth if rec.p_truth is not None else
                       (None if p_duct is None
                        else np.array(p_duct, dtype=float, copy=True)))
            pre = {k: np.array(v, copy=True) for k, v in self.temp.items()}
            avg_mw = np.array(self.avg_duct_mw_temp, copy=True)
            h_int = np.array(self.coolant_int_params['htc'], copy=True)
            h_byp = (np.array(self.coolant_byp_params['htc'], copy=True)
                     if self.n_bypass > 0 else None)
            if h_byp is not None and rec.use_own_htc:
                own = rec.own_bypass_htc(self)
                if own is not None:
                    h_byp = own
            tg_, hg_ = rec.gap_truth(self, np.array(t_gap, copy=True),
                                     np.array(htc_gap, copy=True))
            try:
                return o_rr(self, p_duct, t_gap, htc_gap, adiabatic)
            finally:
                rec.rodded_event(self, pre, avg_mw, h_int, h_byp, p_given,
                                 tg_, hg_, rec.truth(adiabatic))

        def sn_calc(self, temp_gap, htc_gap, adiabatic=False):
            pre = {k: np.array(v, copy=True) for k, v in self.temp.items()}
            avg_mw = np.array(self.avg_duct_mw_temp, copy=True)
            hh = self.coolant_params.get('htc')
            if rec.use_own_htc:
                own = rec.own_unrodded_htc(self, pre['coolant_int'])
                if own is not None:
                    hh = own
            tg_, hg_ = rec.gap_truth(self, np.array(temp_gap, copy=True),
                                     np.array(htc_gap, copy=True))
            try:
                return o_sn(self, temp_gap, htc_gap, adiabatic)
            finally:
                rec.unrodded_event(self, pre, avg_mw, hh, tg_, hg_,
                                   rec.truth(adiabatic))
        RR._calc_duct_temp = rr_calc
        SN._calc_duct_temp = sn_calc
        self._saved = [(RR, o_rr), (SN, o_sn)]

        # entering a region: the wall temperatures the region holds after
        # its activation are a conduction solution for the coolant that
        # entered it.  If the activation solved the wall, that solve was
        # recorded above; if it did not, the stored state itself is judged.
        o_ract = RR.activate
        o_sact = SN.activate

        def rr_activate(self, previous_reg, t_gap, h_gap, adiabatic):
            n0 = len(rec.ev)
            out = o_ract(self, previous_reg, t_gap, h_gap, adiabatic)
            if not any(e.get('e') == 'Slab' for e in rec.ev[n0:]):
                now = {k: np.array(v, copy=True) for k, v in self.temp.items()}
                rec.rodded_event(
                    self, now, np.array(self.avg_duct_mw_temp, copy=True),
                    np.array(self.coolant_int_params['htc'], copy=True),
                    (np.array(self.coolant_byp_params['htc'], copy=True)
                     if self.n_bypass > 0 else None), None,
                    np.array(t_gap, copy=True), np.array(h_gap, copy=True),
                    rec.truth(adiabatic))
                rec.ev[-1]['entered'] = 1
            return out

        def sn_activate(self, previous_reg, t_gap, h_gap, adiabatic):
            n0 = len(rec.ev)
            out = o_sact(self, previous_reg, t_gap, h_gap, adiabatic)
            if not any(e.get('e') == 'Slab' for e in rec.ev[n0:]):
                now = {k: np.array(v, copy=True) for k, v in self.temp.items()}
                rec.unrodded_event(
                    self, now, np.array(self.avg_duct_mw_temp, copy=True),
                    self.coolant_params.get('htc'),
                    np.array(t_gap, copy=True), np.array(h_gap, copy=True),
                    rec.truth(adiabatic))
                rec.ev[-1]['entered'] = 1
            return out
        RR.activate = rr_activate
        SN.activate = sn_activate
        self._acts = [(RR, o_ract), (SN, o_sact)]
        return self

    def own_bypass_htc(self, reg):
        """Film coefficients of the bypass gaps of this region evaluated
        afresh, on a private copy, from its own bypass flow (constant-property
        coolant only, where they do not depend on the history): what the duct
        solve must use, whatever parameter record it reads."""
        # a stagnant gap between two ducts conducts: k(T_gap) / (d / 2) at
        # the temperature the gap has when the walls are solved, evaluated on
        # a private copy at every call (no property-update tolerance)
        try:
            if reg.n_bypass > 0 and np.sum(reg.byp_flow_rate) == 0 and \
                    not hasattr(reg, '_coolant_tracker'):
                import copy
                c = copy.deepcopy(reg)
                c._update_coolant_byp_params(c.avg_coolant_byp_temp)
                return np.array(c.coolant_byp_params['htc'], copy=True)
        except BaseException:
            return None
        key = id(reg)
        if key not in self._own_htc:
            val = None
            try:
                if drive.is_const_material(reg.coolant) and \
                        np.sum(reg.byp_flow_rate) > 0:
                    import copy
                    c = copy.deepcopy(reg)
                    c._update_coolant_byp_params(
                        [float(np.mean(t)) for t in c.temp['coolant_byp']])
                    val = np.array(c.coolant_byp_params['htc'], copy=True)
            except BaseException:
                val = None
            self._own_htc[key] = val
        return self._own_htc[key]

    def own_unrodded_htc(self, reg, t_cool):
        """Film coefficient of a single-node region at the coolant temperature
        the wall is about to be solved against, evaluated on a private copy
        (no property-update tolerance, single-node model only: there the wall
        solve and the coefficient refer to the same coolant state; the
        six-node model lags by design)."""
        try:
            if reg.model != 'simple' or hasattr(reg, '_coolant_tracker'):
                return None
            import copy
            c = copy.deepcopy(reg)
            c._update_coolant_params(float(np.ravel(t_cool)[0]))
            return c.coolant_params['htc']
        except BaseException:
            return None

    # whether the outer boundary is adiabatic: from the input (set by the
    # driver of a recorded sweep) if known, else the flag the routine was given
    expect_adiabatic = None
    reactor = None

    def watch_reactor(self, r):
        """The outer boundary of every wall facing the inter-assembly gap is
        then taken from the core's own gap cells (film-weighted average of
        the cells a duct cell faces) instead of from the arrays handed to
        the wall solve."""
        self.reactor = r
        self._owner = {}
        for ai, a in enumerate(r.assemblies):
            for reg in a.region:
                self._owner[id(reg)] = ai

    duct_table = None

    def wall_k(self, reg, T):
        """Conductivity of the wall material at T: by interpolation through
        every tabulated conductivity of the input's own table when the duct
        material is given as a table (entries of other properties may be
        missing on some rows), else from a private copy of the material."""
        if self.duct_table is not None:
            tb = self.duct_table
            pts = [(float(t), float(k)) for t, k in
                   zip(tb['temperature'], tb['thermal_conductivity'])
                   if float(k) > 0]
            return float(np.interp(float(T), [p[0] for p in pts],
                                   [p[1] for p in pts]))
        return drive.mat_props(reg.duct, T).thermal_conductivity

    def gap_truth(self, reg, t_gap, htc_gap):
        r = self.reactor
        if r is None or r.core.model is None:
            return t_gap, htc_gap
        ai = self._owner.get(id(reg))
        if ai is None:
            return t_gap, htc_gap
        try:
            hk = np.asarray(r.core.adjacent_coolant_gap_htc(ai), dtype=float)
            tk = np.asarray(r.core.adjacent_coolant_gap_temp(ai), dtype=float)
            m = np.asarray(reg._map['gap2duct'], dtype=float)
            h = m @ hk
            t = (m @ (hk * tk)) / h
        except BaseException:
            return t_gap, htc_gap
        if np.shape(t) != np.shape(t_gap):
            return t_gap, htc_gap
        return t, h

    def truth(self, flag):
        return bool(flag) if self.expect_adiabatic is None \
            else bool(self.expect_adiabatic)

    def __exit__(self, *a):
        for cls, f in self._saved:
            cls._calc_duct_temp = f
        for cls, f in getattr(self, '_acts', []):
            cls.activate = f
        return False

    # ------------------------------------------------------------------
    def _cells(self, T_in, h_in, T_out, h_out, qtp, Lw, k_pre, k_post,
               Tsi, Tmw, Tso, adiabatic, last):
        n = len(Tsi)
        out = []
        for j in _pick(n):
            hi = float(np.ravel(h_in)[j] if np.size(h_in) > 1 else h_in)
            ho = float(np.ravel(h_out)[j] if np.size(h_out) > 1 else h_out)
            ti = float(np.ravel(T_in)[j] if np.size(T_in) > 1 else T_in)
            to = float(np.ravel(T_out)[j] if np.size(T_out) > 1 else T_out)
            qq = float(qtp[j]) if np.size(qtp) > 1 else float(qtp)
            adia = adiabatic and last
            fin = hi * (ti - Tsi[j])
            gen = qq * Lw
            fout = 0.0 if adia else ho * (Tso[j] - to)
            slope = (Tso[j] - Tsi[j]) / Lw
            cin = -qq * Lw / 2 - k_pre * slope
            cout = qq * Lw / 2 - k_pre * slope
            # allowance for the temperature at which k is evaluated
            ktol = abs(k_post - k_pre) * abs(slope)
            mw = Tmw[j] - 0.5 * (Tsi[j] + Tso[j])
            mwx = qq * Lw * Lw / (8 * k_pre)
            mwtol = abs(qq) * Lw * Lw / 8 * abs(1 / k_post - 1 / k_pre)
            # fluxes beyond the scale of the projection (a solve that is off
            # by orders of magnitude): this cell is quantised on a scale that
            # holds them, so that TLC can still judge (and reject) it
            big = max(abs(v) for v in (fin, gen, fout, cin, cout, ktol)
                      if np.isfinite(v)) if any(
                np.isfinite(v) for v in (fin, gen, fout, cin, cout)) else 0.0
            sc_ = self.scale if big < 0.2 * self.scale else 8.0 * big
            tsc = self.tscale
            if np.isfinite(mw) and np.isfinite(mwx) and \
                    max(abs(mw), abs(mwx)) >= 0.2 * tsc:
                tsc = 8.0 * max(abs(mw), abs(mwx))

            def qf_(x):
                v = q(float(x), sc_)
                if abs(v) >= QMAX:
                    self.clipped += 1
                return v
            out.append([qf_(fin), qf_(gen), qf_(fout),
                        qf_(cin), qf_(cout),
                        q(mw, tsc), q(mwx, tsc),
                        qf_(ktol) + 1,
                        [qT(ti), qT(Tsi[j]), qT(Tmw[j]), qT(Tso[j]),
                         qT(to)]])
        return out

    def rodded_event(self, reg, pre, avg_mw, h_int, h_byp, p_duct, t_gap,
                     htc_gap, adiabatic):
        nint = reg.subchannel.n_sc['coolant']['interior']
        didx = reg._duct_idx
        nd = reg.n_duct
        ndc = reg.subchannel.n_sc['duct']['total']
        for i in range(nd):
            if i == 0:
                T_in = pre['coolant_int'][nint:]
                h_in = h_int[1:][didx]
            else:
                T_in = pre['coolant_byp'][i - 1]
                h_in = h_byp[i - 1][didx]
            last = (i == nd - 1)
            if last:
                T_out = t_gap
                h_out = htc_gap
                if np.size(h_out) == 2:
                    h_out = h_out[didx]
            else:
                T_out = pre['coolant_byp'][i]
                h_out = h_byp[i][didx]
            Lw = wall_thickness(reg, i)
            if p_duct is None:
                qtp = np.zeros(ndc)
            else:
                # volumetric heating from the linear power of the cell and
                # the slab the cell is modelled as (its perimeter x the wall
                # thickness), independently of the solver's own area table
                perim = drive.duct_perims(reg)[i]
                qtp = (np.asarray(p_duct)[i * ndc:(i + 1) * ndc]
                       / (perim * Lw))
            k_pre = self.wall_k(reg, avg_mw[i])
            k_post = self.wall_k(reg, float(reg.avg_duct_mw_temp[i]))
            cells = self._cells(T_in, h_in, T_out, h_out, qtp, Lw, k_pre,
                                k_post, reg.temp['duct_surf'][i, 0],
                                reg.temp['duct_mw'][i],
                                reg.temp['duct_surf'][i, 1], adiabatic, last)
            self.ev.append({'e': 'Slab', 'kind': 'rod', 'd': i, 'nd': nd,
                            'adia': int(bool(adiabatic and last)),
                            'tol': 4, 'tolT': 2, 'cells': cells})

    def unrodded_event(self, reg, pre, avg_mw, hh, t_gap, htc_gap,
                       adiabatic):
        T_in = pre['coolant_int']
        if np.size(T_in) == 1:
            T_in = np.full(6, float(T_in[0]))
        Lw = wall_thickness(reg)
        k_pre = self.wall_k(reg, avg_mw[0])
        k_post = self.wall_k(reg, float(reg.avg_duct_mw_temp[0]))
        cells = self._cells(T_in, hh if hh is not None else 0.0, t_gap,
                            htc_gap, np.zeros(6), Lw, k_pre, k_post,
                            reg.temp['duct_surf'][0, 0],
                            reg.temp['duct_mw'][0],
                            reg.temp['duct_surf'][0, 1], adiabatic, True)
        self.ev.append({'e': 'Slab', 'kind': reg.model, 'd': 0, 'nd': 1,
                        'adia': int(bool(adiabatic)), 'tol': 4, 'tolT': 2,
                        'cells': cells})

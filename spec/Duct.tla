-------------------------------- MODULE Duct --------------------------------
(***************************************************************************)
(* C11: every duct-wall cell is a slab in steady one-dimensional conduction *)
(* with uniform volumetric heating q''' and convective boundaries.          *)
(*                                                                         *)
(* With x across the wall (thickness Lw, mid-wall at x = 0) the solution is *)
(*      T(x) = -q x^2 / (2k) + c1 x + c2                                    *)
(* All quantities below are derived by the harness from what the solver     *)
(* REPORTS (surface and mid-wall temperatures) and from the boundary data   *)
(* it was GIVEN (adjacent coolant temperatures, film coefficients), and are *)
(* logged as heat fluxes (flux quanta) or temperatures (temperature         *)
(* quanta):                                                                 *)
(*   fin  = h_in  (T_in  - Ts_in)      film flux entering the wall          *)
(*   gen  = q''' Lw                    heat generated per unit wall area    *)
(*   fout = h_out (Ts_out - T_out)     film flux leaving the wall           *)
(*   cin  = -q''' Lw/2 - k (Ts_out - Ts_in)/Lw   Fourier flux at inner face *)
(*   cout = +q''' Lw/2 - k (Ts_out - Ts_in)/Lw   Fourier flux at outer face *)
(*   mw   = T_mw - (Ts_in + Ts_out)/2 ,  mwx = q''' Lw^2 / (8k)             *)
(*   t    = <<T_in, Ts_in, T_mw, Ts_out, T_out>>                            *)
(***************************************************************************)
EXTENDS Integers, Sequences
Close(x, y, tol) == x - y <= tol /\ y - x <= tol
NonDecr(s, n, tol) == \A i \in 1..(n - 1) : s[i] <= s[i + 1] + tol
NonIncr(s, n, tol) == \A i \in 1..(n - 1) : s[i] + tol >= s[i + 1]
\* c = <<fin, gen, fout, cin, cout, mw, mwx, ktol, t>>
SlabBalance(c, tol) == Close(c[1] + c[2], c[3], tol)
InnerFilmIsConduction(c, tol) == Close(c[1], c[4], tol + c[8])
OuterFilmIsConduction(c, tol) == Close(c[3], c[5], tol + c[8])
MidWallParabola(c, tolT) == Close(c[6], c[7], tolT)
AdiabaticOuter(c, tol) == c[3] = 0 /\ Close(c[5], 0, tol + c[8])
\* without wall heating the temperatures lie in order between the coolants
Ordered(c, adia, tolT) ==
   LET n == IF adia THEN 4 ELSE 5 IN
   c[2] # 0 \/ NonDecr(c[9], n, tolT) \/ NonIncr(c[9], n, tolT)
GenNonNegative(c) == c[2] >= 0
CellClauses(c, adia, tol, tolT) ==
  (IF SlabBalance(c, tol) THEN {} ELSE {"FluxInPlusGenerationEqualsFluxOut"})
  \cup (IF InnerFilmIsConduction(c, tol) THEN {} ELSE {"InnerFilmFluxIsConductionFlux"})
  \cup (IF adia \/ OuterFilmIsConduction(c, tol) THEN {} ELSE {"OuterFilmFluxIsConductionFlux"})
  \cup (IF MidWallParabola(c, tolT) THEN {} ELSE {"MidWallOnParabola"})
  \cup (IF ~adia \/ AdiabaticOuter(c, tol) THEN {} ELSE {"AdiabaticOuterFluxZero"})
  \cup (IF Ordered(c, adia, tolT) THEN {} ELSE {"TemperaturesOrderedWithoutHeating"})
  \cup (IF GenNonNegative(c) THEN {} ELSE {"WallHeatingNonNegative"})
=============================================================================

SPECIFICATION Spec
CONSTANTS R = 1
          TolStep = 0
          TolBook = 0
          TolSweep = 0
          TolT = 0
          NA = 2
          Planes = 3
          Variant = "leaky_wall"
INVARIANT InvSweep
INVARIANT InvAsm
INVARIANT InvCore
INVARIANT InvCredit
CONSTRAINT Bounded
CHECK_DEADLOCK FALSE

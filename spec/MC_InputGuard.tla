--------------------------- MODULE MC_InputGuard ---------------------------
EXTENDS InputGuard
FaultsDef == {"NonPositiveDimension", "PinsDoNotFit", "WireThickerThanGap",
              "CladThickerThanRadius", "DuctAgainstPitchOrWalls", "UnequalOuterDucts",
              "AxialRegionsOverlapOrInverted", "BoundaryCondition",
              "UnknownMaterialOrCorrelation", "PowerProfile"}
\* where the tree (after the fix: commits) stops each class
Reader == [x \in FaultsDef |->
             CASE x = "PowerProfile" -> "setup"
               [] x = "UnknownMaterialOrCorrelation" -> "schema"
               [] OTHER -> "semantic"]
\* pre-fix: single overlaps of two regions were not caught anywhere
NoOverlapGuard == [Reader EXCEPT !["AxialRegionsOverlapOrInverted"] = "none"]
\* theorems of part 1 on hand-made facts
Base == [n |-> 3, P |-> 650, D |-> 550, Dw |-> 90, Pw |-> 20000, clad |-> 55,
         ftf |-> <<3012, 3612>>, lowfi |-> 0, pitch |-> 3700, L |-> 60000, mesh |-> 1,
         outer |-> <<3612>>, regs |-> <<<<0, 15000>>, <<45000, 60000>>>>,
         nbc |-> <<1>>, bcval |-> <<1>>, names |-> <<1, 1>>, pow |-> <<1, 1>>,
         lines |-> <<<<1, 1, 1>>, <<2, 1, 6>>, <<3, 1, 12>>>>]
Examples ==
  /\ Reasons(Base) = {}
  /\ Reasons([Base EXCEPT !.P = 900]) = {"PinsDoNotFit"}
  /\ Reasons([Base EXCEPT !.Dw = 120]) = {"WireThickerThanGap", "PinsDoNotFit"}
  /\ Reasons([Base EXCEPT !.clad = 300]) = {"CladThickerThanRadius"}
  /\ Reasons([Base EXCEPT !.D = 0]) = {"NonPositiveDimension"}
  /\ Reasons([Base EXCEPT !.Pw = 0]) = {"NonPositiveDimension"}
  /\ Reasons([Base EXCEPT !.pitch = 3612]) = {"DuctAgainstPitchOrWalls"}
  /\ Reasons([Base EXCEPT !.outer = <<3612, 3600>>]) = {"UnequalOuterDucts"}
  /\ Reasons([Base EXCEPT !.regs = <<<<0, 35000>>, <<30000, 60000>>>>]) = {"AxialRegionsOverlapOrInverted"}
  /\ Reasons([Base EXCEPT !.regs = <<<<0, 30000>>, <<30000, 60000>>>>]) = {"AxialRegionsOverlapOrInverted"}
  /\ Reasons([Base EXCEPT !.regs = <<<<0, 10000>>, <<20000, 30000>>>>]) = {"AxialRegionsOverlapOrInverted"}
  /\ Reasons([Base EXCEPT !.regs = <<<<15000, 0>>>>]) = {"AxialRegionsOverlapOrInverted"}
  /\ Reasons([Base EXCEPT !.regs = <<>>]) = {}
  /\ Reasons([Base EXCEPT !.nbc = <<0>>]) = {"BoundaryCondition"}
  /\ Reasons([Base EXCEPT !.names = <<1, 0>>]) = {"UnknownMaterialOrCorrelation"}
  /\ Reasons([Base EXCEPT !.pow = <<0, 1>>]) = {"PowerProfile"}
  /\ Reasons([Base EXCEPT !.lines = <<<<1, 1, 1>>, <<2, 1, 7>>>>]) = {"PositionOutsideRing"}
  /\ Reasons([Base EXCEPT !.lines = <<<<1, 1, 2>>>>]) = {"PositionOutsideRing"}
  /\ Reasons([Base EXCEPT !.lines = <<<<3, 12, 12>>, <<3, 13, 13>>>>]) = {"PositionOutsideRing"}
  /\ Reasons([Base EXCEPT !.lines = <<<<2, 0, 3>>>>]) = {"PositionOutsideRing"}
=============================================================================

SPECIFICATION Spec
CONSTANTS
  LEN = 5
  MAXDZ = 2
  NASM = 2
  Vals = {1, 3}
  Intv = 3
  Lookup = "code"
INVARIANT BelowFirstRowEnclosed
PROPERTY Finishes
CHECK_DEADLOCK FALSE

------------------------------- MODULE March -------------------------------
(***************************************************************************)
(* THE SWEEP: the explicit axial march of DASSH as a state machine over    *)
(* energy ledgers.                                                         *)
(*                                                                         *)
(* One axial step = every assembly advances once (duct walls, then coolant *)
(* - six-node regions the other way round), then the inter-assembly gap    *)
(* advances with the new duct temperatures, then region changes happen.    *)
(* Numeric content is never computed here: it enters as an observation     *)
(* record o whose fields are integer counts of energy quanta, constrained  *)
(* by the action's contract.  In MC_March o ranges over small sets (TLC     *)
(* proves: local contracts + schedule => sweep and core balances); in      *)
(* Trace_March o is what the harness derived from the real code.           *)
(*                                                                         *)
(* Step quantities are in step quanta, running totals in sweep quanta;     *)
(* one sweep quantum = R step quanta.                                      *)
(***************************************************************************)
EXTENDS Integers, Sequences, FiniteSets

CONSTANTS R,          \* step quanta per sweep quantum
          TolStep,    \* allowance on a per-step relation (step quanta)
          TolBook,    \* allowance between derived and code tallies
          TolSweep,   \* allowance on a relation between running totals
          TolT        \* allowance on temperatures (temperature quanta)

VARIABLES nasm,       \* number of assemblies
          pc,         \* "asm" | "gap" | "region" | "done"
          k,          \* index of the plane being computed (1-based)
          todo,       \* assemblies not yet advanced in this step
          H, Q, G, W, O,   \* per-assembly running totals (sweep quanta):
                      \*  coolant enthalpy rise, heat deposited in coolant,
                      \*  heat generated in duct walls, heat received by the
                      \*  coolant through walls, heat sent to the gap
          pend,       \* heat that left each outer duct in this step
          lagpend,    \* six-node regions: heat the wall passed on in the
                      \* previous step, taken from the coolant one step later
          lagged,     \* assemblies that have been in a six-node region
          lagvalid,   \* assemblies whose lagpend belongs to the active region
          Hgap,       \* gap coolant enthalpy rise (sweep quanta)
          C,          \* per-assembly heat credited to the gap (sweep quanta)
          gapmodel,   \* "flow" | "other" | "none"
          tmin, tmax  \* running extreme coolant temperatures (C04)
mvars == <<nasm, pc, k, todo, H, Q, G, W, O, pend, lagpend, lagged, lagvalid, Hgap, C,
           gapmodel, tmin, tmax>>

Abs(x) == IF x < 0 THEN -x ELSE x
Close(x, y, tol) == x - y <= tol /\ y - x <= tol
Asm == 1..nasm
RECURSIVE SumF(_, _)
SumF(f, n) == IF n = 0 THEN 0 ELSE f[n] + SumF(f, n - 1)
SumSeq(s) == SumF(s, Len(s))

MInit(n, gm) ==
  /\ nasm = n /\ pc = "asm" /\ k = 1 /\ todo = 1..n
  /\ H = [a \in 1..n |-> 0] /\ Q = [a \in 1..n |-> 0]
  /\ G = [a \in 1..n |-> 0] /\ W = [a \in 1..n |-> 0]
  /\ O = [a \in 1..n |-> 0] /\ C = [a \in 1..n |-> 0]
  /\ pend = [a \in 1..n |-> 0] /\ lagpend = [a \in 1..n |-> 0]
  /\ lagged = {} /\ lagvalid = 1..n /\ Hgap = 0 /\ gapmodel = gm
  /\ tmin = 0 /\ tmax = 0

----------------------------------------------------------------------------
\* Contract of one assembly step.  Each clause is named; a trace is
\* rejected with the names of the clauses that fail.
TolOf(o) == TolStep + (IF o.cls = "lag" THEN o.lagB ELSE 0)
\* C01: enthalpy rise = heat generated in pins/coolant + heat through walls
BalStep(o) == Close(o.dH, o.qPins + o.qCool + o.qRefl + o.wallIn, TolOf(o))
\* duct walls store nothing: what is generated in them or enters them leaves
\* (C11 per cell; here the perimeter-integrated form the core balance needs).
\* Six-node regions advance the coolant BEFORE its wall: the heat the wall
\* passed on in one step is taken from the coolant in the next step (the
\* one-level lag the model builds in); no statement on the first step of
\* such a region.
WallBal(o) ==
  IF o.kind = "6node"
  THEN o.a \notin lagvalid \/ Close(o.wallInLag, -lagpend[o.a], TolOf(o))
  ELSE Close(o.ductOut, o.qDuct - o.wallIn, TolOf(o))
\* the code's own tallies agree with the derived quantities
BookPower(o) == /\ Close(o.ebPower, o.qPins + o.qCool + o.qRefl, TolBook)
                /\ Close(o.pdPins, o.qPins, TolBook)
                /\ Close(o.pdCool, o.qCool, TolBook)
                /\ Close(o.pdDuct, o.qDuct, TolBook)
                /\ Close(o.pdRefl, o.qRefl, TolBook)
BookWall(o) == Close(o.ebDuct, o.wallIn, TolBook + (IF o.cls = "lag" THEN o.lagB ELSE 0))
Adiabatic(o) == o.adia = 0 \/ o.ductOut = 0
\* running totals advance by the step's terms (each rounded once)
\* (an increment beyond 2^24 sweep quanta cannot equal any step-quantum
\* figure, which stays below 2^30: decided without forming the product)
Advance(old, new, inc) ==
  LET d == new - old IN
  IF d > 16000000 \/ d < -16000000 THEN FALSE ELSE Close(d * R, inc, R + 2)
LedgerStep(o) == /\ Advance(H[o.a], o.HTot, o.dH)
                 /\ Advance(Q[o.a], o.QTot, o.qPins + o.qCool + o.qRefl)
                 /\ Advance(G[o.a], o.GTot, o.qDuct)
                 /\ Advance(W[o.a], o.WTot, o.wallIn)
                 /\ Advance(O[o.a], o.OTot, o.ductOut)
\* C04 on the march: with non-negative power nothing drops below the inlet;
\* with no power and no wall heat no new extremum appears
NoUndershoot(o) == o.pos = 0 \/ o.adia = 0 \/ o.minT >= o.inT - TolT
NoNewExtremum(o) == o.zero = 0 \/ o.adia = 0
                    \/ (o.minT >= o.preMin - TolT /\ o.maxT <= o.preMax + TolT)
Scheduled(o) == pc = "asm" /\ o.a \in todo /\ o.k = k

AsmClauses(o) ==
  (IF Scheduled(o) THEN {} ELSE {"StepOrder"})
  \cup (IF BalStep(o) THEN {} ELSE {"CoolantEnergyBalance"})
  \cup (IF WallBal(o) THEN {} ELSE {"DuctWallsStoreNoHeat"})
  \cup (IF BookPower(o) THEN {} ELSE {"PowerBookkeeping"})
  \cup (IF BookWall(o) THEN {} ELSE {"WallHeatBookkeeping"})
  \cup (IF Adiabatic(o) THEN {} ELSE {"AdiabaticMeansNoOuterFlux"})
  \cup (IF o.a \in Asm /\ LedgerStep(o) THEN {} ELSE {"LedgerAdvance"})
  \cup (IF NoUndershoot(o) THEN {} ELSE {"NoUndershoot"})
  \cup (IF NoNewExtremum(o) THEN {} ELSE {"NoNewExtremum"})

\* the ledger update (separate from the contract so that trace validation can
\* keep going after a failed clause and report every failing clause)
AsmUpdate(o) ==
  /\ H' = [H EXCEPT ![o.a] = o.HTot] /\ Q' = [Q EXCEPT ![o.a] = o.QTot]
  /\ G' = [G EXCEPT ![o.a] = o.GTot] /\ W' = [W EXCEPT ![o.a] = o.WTot]
  /\ O' = [O EXCEPT ![o.a] = o.OTot]
  /\ pend' = [pend EXCEPT ![o.a] = o.ductOut]
  /\ lagged' = IF o.kind = "6node" THEN lagged \cup {o.a} ELSE lagged
  /\ lagpend' = [lagpend EXCEPT ![o.a] = o.ductOut - o.qDuct]
  /\ lagvalid' = lagvalid \cup {o.a}
  /\ todo' = todo \ {o.a}
  /\ pc' = IF todo' = {} THEN (IF gapmodel = "none" THEN "region" ELSE "gap") ELSE "asm"
  /\ tmin' = IF o.minT < tmin \/ tmin = 0 THEN o.minT ELSE tmin
  /\ tmax' = IF o.maxT > tmax THEN o.maxT ELSE tmax
  /\ UNCHANGED <<nasm, k, Hgap, C, gapmodel>>
AsmStep(o) == AsmClauses(o) = {} /\ AsmUpdate(o)

----------------------------------------------------------------------------
\* Gap step (flowing model).  C02: what left an assembly through its outer
\* duct in this step is what its gap cells received; conduction between gap
\* cells only moves heat.
CreditMatches(o) == \A a \in Asm : Close(o.credit[a], pend[a], TolStep)
PendObserved(o) == \A a \in Asm : o.pend[a] = pend[a]
GapConserves(o) == Close(o.dHgap, SumSeq(o.credit), TolStep + nasm)
BookGap(o) == \A a \in Asm : Close(o.ebAsm[a], o.credit[a], TolBook)
LedgerGap(o) == /\ Advance(Hgap, o.HgapTot, o.dHgap)
                /\ \A a \in Asm : Advance(C[a], o.CTot[a], o.credit[a])
GapScheduled(o) == pc = "gap" /\ o.k = k
GapClauses(o) ==
  (IF GapScheduled(o) THEN {} ELSE {"GapAfterAllAssemblies"})
  \cup (IF Len(o.credit) = nasm /\ CreditMatches(o) THEN {} ELSE {"DuctHeatEqualsGapCredit"})
  \cup (IF Len(o.pend) = nasm /\ PendObserved(o) THEN {} ELSE {"PendingHeatObserved"})
  \cup (IF GapConserves(o) THEN {} ELSE {"GapConductionOnlyMovesHeat"})
  \cup (IF Len(o.ebAsm) = nasm /\ BookGap(o) THEN {} ELSE {"GapBookkeeping"})
  \cup (IF Len(o.CTot) = nasm /\ LedgerGap(o) THEN {} ELSE {"LedgerAdvance"})
GapUpdate(o) ==
  /\ Hgap' = o.HgapTot
  /\ C' = [a \in Asm |-> o.CTot[a]]
  /\ pc' = "region"
  /\ UNCHANGED <<nasm, k, todo, H, Q, G, W, O, pend, lagpend, lagged, lagvalid, gapmodel, tmin, tmax>>
GapStep(o) == GapClauses(o) = {} /\ GapUpdate(o)
\* Other gap models: not discretely conservative, no ledger statement
GapOther == /\ pc = "gap" /\ gapmodel = "other"
            /\ pc' = "region"
            /\ UNCHANGED <<nasm, k, todo, H, Q, G, W, O, pend, lagpend, lagged, lagvalid, Hgap, C, gapmodel, tmin, tmax>>

\* Region change: mixed-mean coolant temperature carried over unchanged
RegionClauses(o) ==
  (IF pc = "region" /\ o.a \in Asm THEN {} ELSE {"RegionChangeAfterGap"})
  \cup (IF Close(o.tBefore, o.tAfter, TolT) THEN {} ELSE {"MixedMeanCarriedOver"})
  \cup (IF o.tMin >= o.tAfter - TolT /\ o.tMax <= o.tAfter + TolT THEN {} ELSE {"NewRegionUniformAtMixedMean"})
  \cup (IF o.to = o.frm + 1 THEN {} ELSE {"RegionsInOrder"})
RegionUpdate(o) == /\ lagvalid' = lagvalid \ {o.a}
                   /\ UNCHANGED <<nasm, pc, k, todo, H, Q, G, W, O, pend, lagpend, lagged, Hgap, C, gapmodel, tmin, tmax>>
RegionChange(o) == RegionClauses(o) = {} /\ RegionUpdate(o)

EndStep == /\ pc = "region"
           /\ pc' = "asm" /\ k' = k + 1 /\ todo' = Asm
           /\ UNCHANGED <<nasm, H, Q, G, W, O, pend, lagpend, lagged, lagvalid, Hgap, C, gapmodel, tmin, tmax>>

----------------------------------------------------------------------------
\* Global invariants (hold at every plane boundary, i.e. when pc = "asm"
\* and todo = Asm); for exact (constant-property) problems.
AtBoundary == pc = "asm" /\ todo = Asm
\* C01 summed over the sweep
SweepBal == \A a \in Asm : Close(H[a], Q[a] + W[a], TolSweep)
\* assembly: enthalpy = all power delivered - what went to the gap (stated
\* for assemblies that never went through a lagging six-node wall)
AsmBal == \A a \in Asm \ lagged : Close(H[a], Q[a] + G[a] - O[a], TolSweep)
\* C02 whole core: all enthalpy rise = all power
CoreBal == AtBoundary /\ gapmodel = "flow" /\ lagged = {} =>
   Close(SumF(H, nasm) + Hgap, SumF(Q, nasm) + SumF(G, nasm),
         TolSweep + 2 * nasm)
\* with lagging walls: up to the heat already passed to the gap but not yet
\* taken from the coolant (stated in MC_March where R = 1)
LagSum == LET f == [a \in Asm |-> IF a \in lagged THEN pend[a] ELSE 0] IN SumF(f, nasm)
GapCredit == AtBoundary /\ gapmodel = "flow" =>
   \A a \in Asm : Close(C[a], O[a], TolSweep)
AdiabaticCore == gapmodel = "none" => \A a \in Asm : O[a] = 0
=============================================================================

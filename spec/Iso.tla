--------------------------------- MODULE Iso ---------------------------------
(***************************************************************************)
(* Isolation of assemblies (C06): the only coupling between assemblies is  *)
(* the duct-wall heat exchange with the gap coolant.                       *)
(*                                                                         *)
(* Every assembly owns mutable helper state (material property holders,   *)
(* correlated parameters, trackers).  The solver advances an assembly by   *)
(* READING that state as it was left (properties from the previous         *)
(* sub-step) and then WRITING it (update to its new temperature).  The     *)
(* model abstracts one such holder per assembly: obj[a] names the object   *)
(* assembly a uses, tag[o] is what the object currently holds (the         *)
(* assembly that wrote it last, and at which plane).                        *)
(*   ReadOwn    - when a is advanced, the object it reads was last written  *)
(*                by a itself (or is still in its initial state)            *)
(*   Confluence - the state after a plane does not depend on the order in   *)
(*                which the assemblies were advanced                        *)
(* With one object per assembly both hold for every order; with one object  *)
(* per TYPE (clones sharing the template's object) they fail as soon as a   *)
(* type has two assemblies.                                                 *)
(***************************************************************************)
EXTENDS Integers, FiniteSets, Sequences
CONSTANTS Asm, TypeOf, Planes, Sharing    \* Sharing: "per_assembly" | "per_type"
VARIABLES k, todo, tag, seen, order
ivars == <<k, todo, tag, seen, order>>
Obj(a) == IF Sharing = "per_assembly" THEN <<"asm", a>> ELSE <<"type", TypeOf[a]>>
Objs == {Obj(a) : a \in Asm}
Init == /\ k = 1 /\ todo = Asm
        /\ tag = [o \in Objs |-> <<0, 0>>]
        /\ seen = [a \in Asm |-> <<0, 0>>]
        /\ order = <<>>
\* advancing assembly a: it sees what its object holds, then writes it
Step(a) == /\ a \in todo
           /\ seen' = [seen EXCEPT ![a] = tag[Obj(a)]]
           /\ tag' = [tag EXCEPT ![Obj(a)] = <<a, k>>]
           /\ todo' = todo \ {a}
           /\ order' = Append(order, a)
           /\ UNCHANGED k
EndPlane == /\ todo = {} /\ k < Planes
            /\ k' = k + 1 /\ todo' = Asm /\ order' = <<>>
            /\ UNCHANGED <<tag, seen>>
Next == (\E a \in Asm : Step(a)) \/ EndPlane
Spec == Init /\ [][Next]_ivars
\* what a must see: its own previous write (plane k-1), or the initial state
Expected(a) == IF k = 1 THEN <<0, 0>> ELSE <<a, k - 1>>
ReadOwn == \A a \in Asm \ todo : seen[a] = Expected(a)
\* hence the result of a plane is a function of the previous plane only
Confluence == todo = {} => \A a \in Asm : seen[a] = Expected(a)
=============================================================================

SPECIFICATION Spec
CONSTANTS Lticks = 8
          MaxLimit = 10
          Variant = "reject"
INVARIANT InvPast
INVARIANT InvDone
INVARIANT InvStep
INVARIANT InvUser
INVARIANT ErrorOnlyIfZero
PROPERTY Termination
PROPERTY Mono
CHECK_DEADLOCK FALSE

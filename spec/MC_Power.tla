------------------------------ MODULE MC_Power ------------------------------
(* Every plane set of a cell of L ticks, every bundle cut on planes, small  *)
(* shape coefficients: one initial state per instance.                      *)
EXTENDS Power, TLC
CONSTANTS Require   \* "aligned_or_flat" | "always"
Subsets == SUBSET (1..(L - 1))
RECURSIVE OrdSeq(_, _)
OrdSeq(S, lo) == IF S = {} THEN <<>> ELSE
   LET m == CHOOSE x \in S : \A y \in S : x <= y IN <<m>> \o OrdSeq(S \ {m}, m)
Init == /\ \E S \in Subsets : planes = <<0>> \o OrdSeq(S, 0) \o <<L>>
        /\ a \in 3..4 /\ b \in -1..1 /\ c \in {0, 1}
        /\ blo \in {planes[i] : i \in 1..Len(planes)}
        /\ bhi \in {planes[i] : i \in 1..Len(planes)}
        /\ blo < bhi
Next == UNCHANGED pvars
Spec == Init /\ [][Next]_pvars
\* positive shapes only (the reader rejects negative power)
Relevant == Positive
Thm == Relevant => (IF Require = "always" THEN Exact
                    ELSE (Aligned \/ Flat) => Exact)
\* converse at design level: a misaligned cut of a non-flat positive shape
\* is not always exact under the whole-cell scheme (witnessed by Neg cfg)
=============================================================================

SPECIFICATION Spec
CONSTANTS TolP = 0
          RP = 1
          Interval = "half_open"
          Zmax = 6
          MaxStep = 3
INVARIANT InvGridOnce
INVARIANT InvPeakIsMax
CHECK_DEADLOCK FALSE

----------------------------- MODULE MC_MeshMap -----------------------------
(* All pairs of meshes of a perimeter of P ticks whose interior boundaries   *)
(* are subsets of 1..P-1 (at least one each).                                *)
EXTENDS MeshMap, TLC
CONSTANTS P
VARIABLES xc, xf
RECURSIVE Ord(_)
Ord(S) == IF S = {} THEN <<>> ELSE
   LET m == CHOOSE a \in S : \A b \in S : a <= b IN <<m>> \o Ord(S \ {m})
Meshes == {<<0>> \o Ord(S) \o <<P>> : S \in (SUBSET (1..(P - 1))) \ {{}}}
Init == xc \in Meshes /\ xf \in Meshes
Next == UNCHANGED <<xc, xf>>
Spec == Init /\ [][Next]_<<xc, xf>>
Thm == /\ ValidMesh(xc, P) /\ ValidMesh(xf, P)
       /\ RowsPartition(xc, xf)
       /\ Conservative(xc, xf)
       /\ (xc = xf => IdentityWhenEqual(xc))
       /\ \A c \in 1..NC(xc) : \A f \in 1..NC(xf) : Ov(xc, c, xf, f) >= 0
=============================================================================

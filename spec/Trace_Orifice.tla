---------------------------- MODULE Trace_Orifice ----------------------------
(* Histories recorded from the real dassh.Orificing object (_group passes   *)
(* seen through _check_new_group, distribute iterations seen through        *)
(* _estimate_optvar, regroup) checked against the rules of Orifice.tla.     *)
(* Parameter values are small integers; the cut-off is logged as            *)
(* floor(cutoff * sc), so a decision is only wrong when it is wrong for     *)
(* every cut-off in the logged band.  Flows in quanta of required/2^20.     *)
EXTENDS Integers, Sequences, FiniteSets, Json, IOUtils, TLC
Traces == ndJsonDeserialize(IOEnv.TRACE_FILE)
VARIABLES tid, l, verdict, firstbad, done, st
vars == <<tid, l, verdict, firstbad, done, st>>
T == Traces[tid]
Ev == T.ev[l]
Close(x, y, tol) == x - y <= tol /\ y - x <= tol
None == [k |-> "none"]
Init == tid \in 1..Len(Traces) /\ l = 1 /\ verdict = {} /\ firstbad = 0 /\ done = FALSE
        /\ st = [g |-> None, prev |-> None, npass |-> 0, d |-> None, lastm |-> <<>>]
Note(cl) == /\ verdict' = verdict \cup cl
            /\ firstbad' = IF cl # {} /\ firstbad = 0 THEN l ELSE firstbad
            /\ l' = l + 1 /\ UNCHANGED <<tid, done>>
Live(e) == ~done /\ l <= Len(T.ev) /\ Ev.e = e
RECURSIVE SumSeq(_)
SumSeq(s) == IF s = <<>> THEN 0 ELSE Head(s) + SumSeq(Tail(s))
Cl(ok, name) == IF ok THEN {} ELSE {name}

\* ---- grouping ---------------------------------------------------------------
\* g.vals: parameter values in descending order; sizes: group sizes of a pass
\* walk the sorted values with the logged sizes and test every decision
RECURSIVE PassOK(_, _, _, _, _, _, _, _)
PassOK(S, sz, i, left, gmax, gsum, glen, o) ==
  \* i: next position; left: members still to come in the current group
  IF i > Len(S) THEN left = 0 /\ Len(sz) = 1
  ELSE LET p == S[i]
           lhs == (gmax - p) * (glen + 1) * o.sc
           s == gsum + p IN
       IF left > 0
       THEN \* joined: must not be a certain split
            /\ lhs < (o.cut + 2) * s
            /\ PassOK(S, sz, i + 1, left - 1, gmax, s, glen + 1, o)
       ELSE \* a new group opened: must not be a certain join
            /\ Len(sz) > 1
            /\ lhs > (o.cut - 1) * s
            /\ PassOK(S, Tail(sz), i + 1, sz[2] - 1, p, p, 1, o)
PassFollowsRule(g, o) ==
  /\ Len(o.sizes) >= 1 /\ \A j \in 1..Len(o.sizes) : o.sizes[j] >= 1
  /\ SumSeq(o.sizes) = Len(g.vals)
  /\ IF o.big = 1 THEN o.sizes = <<Len(g.vals)>>
     ELSE PassOK(g.vals, o.sizes, 2, o.sizes[1] - 1, g.vals[1], g.vals[1], 1,
                 [cut |-> o.cut, sc |-> g.sc])
AdjustOK(g, p, o) ==
  LET n == Len(p.sizes) IN
  IF n > g.ng THEN Close(o.cut, p.cut + g.delta, 2)
  ELSE IF n < g.ng THEN Close(o.cut, p.cut \div 10, 2)
  ELSE FALSE            \* the loop stops when the count is met
TrGStart == /\ Live("GStart")
            /\ st' = [st EXCEPT !.g = Ev, !.prev = None, !.npass = 0]
            /\ Note(Cl(\A j \in 1..(Len(Ev.vals) - 1) : Ev.vals[j] >= Ev.vals[j + 1],
                       "SweepInDescendingOrder"))
TrPass == /\ Live("Pass")
          /\ st' = [st EXCEPT !.prev = Ev, !.npass = @ + 1 + Ev.skipped]
          /\ Note(Cl(PassFollowsRule(st.g, Ev), "PassFollowsCutoffRule")
                  \cup Cl(st.prev = None \/ Ev.skipped > 0 \/ Ev.big = 1 \/ st.prev.big = 1
                          \/ AdjustOK(st.g, st.prev, Ev), "CutoffAdjustedTowardsRequest"))
GroupCount(grp, g) == Cardinality({i \in 1..Len(grp) : grp[i] = g})
TrGEnd ==
  /\ Live("GEnd")
  /\ LET g == st.g  p == st.prev
         n == IF p = None THEN 0 ELSE Len(p.sizes) IN
     IF Ev.out = "ok" THEN
       /\ st' = [st EXCEPT !.g = [g EXCEPT !.grp = Ev.grp]]
       /\ Note(Cl(n = g.ng, "ReturnsOnlyRequestedCount")
               \cup Cl(Len(Ev.grp) = Len(g.pw) /\ \A i \in 1..Len(Ev.grp) : Ev.grp[i] \in 0..(g.ng - 1),
                       "EveryAssemblyInOneGroup")
               \cup Cl(\A x \in 0..(g.ng - 1) : GroupCount(Ev.grp, x) >= 1, "ExactlyRequestedNonEmptyGroups")
               \cup Cl(\A i, j \in 1..Len(Ev.grp) : Ev.grp[i] < Ev.grp[j] => g.pw[i] >= g.pw[j],
                       "GroupsOrderedByParameter")
               \cup Cl(n = g.ng => \A x \in 0..(g.ng - 1) : GroupCount(Ev.grp, x) = p.sizes[x + 1],
                       "ReturnedGroupingIsLastPass"))
     ELSE /\ UNCHANGED st
          /\ Note(Cl(n # g.ng, "NoErrorWhenRequestMet")
                  \cup Cl(st.npass >= g.itmax, "ErrorOnlyAfterIterationLimit"))

\* ---- distribution -------------------------------------------------------------
SameFlow(grp, m) == \A i, j \in 1..Len(grp) : grp[i] = grp[j] => Close(m[i], m[j], 1)
\* an iterate far outside the scale is logged clipped (wild = 1) with the sum
\* of its exact flows beside it
Total(e) == IF e.wild = 1 THEN e.sum ELSE SumSeq(e.m)
IterClauses(d, m, tot) ==
  Cl(Len(m) = Len(d.grp), "EveryAssemblyGetsAFlow")
  \cup Cl(SameFlow(d.grp, m), "SameFlowInGroup")
  \cup Cl(Close(tot, d.mt, Len(m) + 2), "SumIsRequiredTotal")
  \cup Cl(\A i \in 1..Len(m) : d.grp[i] < d.ng - 1 /\ d.lim[i] > 0 => m[i] <= d.lim[i] + 1,
          "HeldGroupsWithinLimit")
TrDStart == /\ Live("DStart") /\ st' = [st EXCEPT !.d = Ev, !.lastm = <<>>]
            /\ Note(Cl(\A x \in 0..(Ev.ng - 1) : GroupCount(Ev.grp, x) >= 1,
                       "ExactlyRequestedNonEmptyGroups"))
TrDIter == /\ Live("DIter") /\ st' = [st EXCEPT !.lastm = Ev.m]
           /\ Note(IterClauses(st.d, Ev.m, Total(Ev)))
TrDEnd ==
  /\ Live("DEnd") /\ UNCHANGED st
  /\ IF Ev.out = "ok" THEN
       Note(IterClauses(st.d, Ev.m, Total(Ev))
            \cup Cl(Ev.m = st.lastm, "ReturnedFlowsAreLastIteration")
            \cup Cl(\A i \in 1..Len(Ev.m) : st.d.lim[i] > 0 => Ev.m[i] <= st.d.lim[i] + 1,
                    "LimitNeverExceeded"))
     ELSE Note({})
\* ---- regrouping ---------------------------------------------------------------
TrRegroup ==
  /\ Live("Regroup") /\ UNCHANGED st
  /\ Note(Cl(Len(Ev.after) = Len(Ev.before)
             /\ \A i \in 1..Len(Ev.after) : Ev.after[i] \in 0..(Ev.ng - 1), "EveryAssemblyInOneGroup")
          \cup Cl(\A x \in 0..(Ev.ng - 1) : GroupCount(Ev.after, x) >= 1, "ExactlyRequestedNonEmptyGroups"))
\* ---- applying the distributed flows to the core ------------------------------
\* (Orificing._setup_input_orifice on a core in which only some types are
\* grouped): positions are 0-based ids; found[p + 1] is the flow written for
\* position p (-1: none), m[k] the flow distributed to the k-th grouped assembly
TrApply ==
  /\ Live("Apply") /\ UNCHANGED st
  /\ LET n == Len(Ev.found)  K == Len(Ev.m) IN
     Note(Cl(Ev.ids = Ev.gpos, "GroupedAssembliesAreThoseRequested")
          \cup Cl(Len(Ev.gpos) = K /\ \A k \in 1..K : Ev.found[Ev.gpos[k] + 1] = Ev.m[k],
                  "AppliedFlowIsTheFlowDistributedToThatAssembly")
          \cup Cl(Len(Ev.gpos) = K /\ \A j, k \in 1..K : Ev.grp[j] = Ev.grp[k]
                      => Ev.found[Ev.gpos[j] + 1] = Ev.found[Ev.gpos[k] + 1],
                  "GroupMembersGetTheSameFlow")
          \* groups are ordered by the grouping parameter of the input's own
          \* profiles (1 ppm slack)
          \cup Cl(Len(Ev.gparam) = K /\ \A j, k \in 1..K : Ev.grp[j] < Ev.grp[k]
                      => Ev.gparam[j] >= Ev.gparam[k] - 1,
                  "GroupsOrderedByGroupingParameter")
          \cup Cl(\A p \in 1..n : (\A k \in 1..K : Ev.gpos[k] + 1 # p)
                      => Close(Ev.found[p], Ev.ngflow[p], Ev.tol),
                  "UngroupedAssemblyKeepsItsOwnFlow"))
\* the real grouping of a core stopped with an error: legal only when the
\* iteration limit was reached and the last pass did not give the count
TrGStop == /\ Live("GStop") /\ UNCHANGED st
           /\ Note(Cl(Ev.lastn # Ev.ng, "NoErrorWhenRequestMet")
                   \cup Cl(Ev.whole = 1 /\ Ev.npass >= Ev.itmax,
                           "ErrorOnlyAfterIterationLimit"))
TrCrash == Live("Crash") /\ UNCHANGED st /\ Note({"NoUnhandledException"})
Report == /\ ~done /\ l > Len(T.ev)
          /\ PrintT(<<"VERDICT", tid, IF verdict = {} THEN "accept" ELSE "reject",
                      IF firstbad # 0 THEN firstbad ELSE l - 1, verdict>>)
          /\ done' = TRUE /\ UNCHANGED <<tid, l, verdict, firstbad, st>>
Next == TrGStart \/ TrPass \/ TrGEnd \/ TrDStart \/ TrDIter \/ TrDEnd \/ TrRegroup \/ TrApply
        \/ TrGStop \/ TrCrash \/ Report
Spec == Init /\ [][Next]_vars
=============================================================================

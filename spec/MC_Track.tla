------------------------------ MODULE MC_Track ------------------------------
(* Design model of the fold accumulators: every plane sequence on 0..Zmax   *)
(* with steps of 1..MaxStep ticks, every set of <= 2 grid positions          *)
(* (including positions that coincide with planes), one assembly whose      *)
(* regions have 1..2 ducts.  Interval = "half_open" charges every grid once *)
(* (GridOnce holds); Interval = "open" (Neg_Track_Open.cfg) must fail.      *)
EXTENDS AsmTrack, TLC
CONSTANTS Zmax, MaxStep
VARIABLES z, fin
vars == <<tvars, z, fin>>
GridSets == {s \in SUBSET (1..Zmax) : Cardinality(s) <= 2}
RECURSIVE SetSeq(_)
SetSeq(s) == IF s = {} THEN <<>> ELSE
   LET m == CHOOSE x \in s : \A y \in s : x <= y IN << <<0, m>> >> \o SetSeq(s \ {m})
Init == /\ \E gs \in GridSets : TInit(1, <<SetSeq(gs)>>, <<2>>, <<1>>)
        /\ z = 0 /\ fin = FALSE
Obs(zn, mx, nd) ==
  LET base == [a |-> 1, rod |-> 1, zlo |-> <<0, z>>, zhi |-> <<0, zn>>, exact |-> 1,
               lossQ |-> 1, dF |-> zn - z, cF |-> zn - z, dG |-> 0, cG |-> 0,
               inreg |-> 1] IN
  LET h == Cardinality({g \in 1..Len(grids[1]) : InStep(grids[1][g], <<0, z>>, <<0, zn>>)}) IN
  [base EXCEPT !.a = 1] @@
  [dS |-> h, FTot |-> F[1] + (zn - z), STot |-> S[1] + h, GTot |-> 0,
   PTot |-> F[1] + (zn - z) + S[1] + h,
   cmax |-> mx, cgt |-> IF mx > pkC[1][1] THEN 1 ELSE 0,
   codeC |-> IF mx > pkC[1][1] THEN <<mx, <<0, zn>>>> ELSE pkC[1],
   nd |-> nd,
   dmax |-> [d \in 1..nd |-> <<mx, IF mx > pkD[1][2 - nd + d][1] THEN 1 ELSE 0>>],
   codeD |-> [s \in 1..2 |-> IF s > 2 - nd /\ mx > pkD[1][s][1] THEN <<mx, <<0, zn>>>> ELSE pkD[1][s]],
   pmax |-> << <<mx, IF mx > pkP[1][1][1] THEN 1 ELSE 0>> >>,
   codeP |-> << IF mx > pkP[1][1][1] THEN <<mx, <<0, zn>>>> ELSE pkP[1][1] >>,
   profOK |-> 1]
Step == /\ z < Zmax
        /\ \E dz \in 1..MaxStep : \E mx \in 1..2 : \E nd \in 1..2 :
             LET zn == IF z + dz > Zmax THEN Zmax ELSE z + dz
                 o == Obs(zn, mx, nd) IN
             /\ PressureClauses(o) \cup PeakClauses(o) = {}
             /\ PressureUpdate(o) /\ PeakUpdate(o)
             /\ z' = zn
        /\ UNCHANGED <<nasm, grids, fin>>
Done == z = Zmax /\ ~fin /\ fin' = TRUE /\ UNCHANGED <<tvars, z>>
Next == Step \/ Done
Spec == Init /\ [][Next]_vars
\* the specification of C14's counting clause
InvGridOnce == fin => GridOnce(1, <<0, 0>>, <<0, Zmax>>)
\* C15: the tracked peak is the maximum of everything folded so far
InvPeakIsMax == pkC[1][1] <= 2 /\ (z > 0 => pkC[1][1] >= 1)
InvAdditive == TRUE
=============================================================================

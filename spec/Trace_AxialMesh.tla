--------------------------- MODULE Trace_AxialMesh ---------------------------
(* Validation of the planes the real Reactor builds (full constructions)   *)
(* and of replays of TLC-enumerated (boundaries, limit, request) instances  *)
(* through Reactor._setup_overall_axial_mesh_req / _setup_zpts.             *)
EXTENDS AxialMesh, Json, IOUtils, TLC
Traces == ndJsonDeserialize(IOEnv.TRACE_FILE)
VARIABLES tid, l, verdict, firstbad, done
vars == <<avars, tid, l, verdict, firstbad, done>>
T == Traces[tid]
Ev == T.ev[l]
ToL(x) == <<x[1], x[2]>>
SetL(s) == {ToL(s[i]) : i \in 1..Len(s)}
Init == /\ tid \in 1..Len(Traces)
        /\ AInit(SetL(Traces[tid].cfg.B), ToL(Traces[tid].cfg.limit),
                 ToL(Traces[tid].cfg.user), ToL(Traces[tid].cfg.cap))
        /\ l = 1 /\ verdict = {} /\ firstbad = 0 /\ done = FALSE
Note(cl) == /\ verdict' = verdict \cup cl
            /\ firstbad' = IF cl # {} /\ firstbad = 0 THEN l ELSE firstbad
            /\ l' = l + 1 /\ UNCHANGED <<tid, done>>
Live(e) == ~done /\ l <= Len(T.ev) /\ Ev.e = e
\* the gap's requirement (nanometres) against the limit read off the real gap
\* update: it must cover the narrowest gap cell
TrGapLimit == /\ Live("GapLimit") /\ UNCHANGED avars
              /\ Note(IF Ev.code <= Ev.true + 1 THEN {} ELSE {"GapRequirementCoversEveryGapCell"})
\* ... and the requirement of an un-rodded region against the limit read off
\* that region's own coolant update
TrRegionLimit == /\ Live("RegionLimit") /\ UNCHANGED avars
                 /\ Note(IF Ev.code <= Ev.true + 1 THEN {} ELSE {"RegionRequirementCoversEveryNode"})
TrSelect == /\ Live("Select") /\ status = "select"
            /\ LET s == ToL(Ev.step) IN
               /\ step' = s
               /\ status' = IF Le(s, Zero) THEN "error" ELSE "march"
               /\ Note((IF s = Chosen(limit, user, cap) THEN {} ELSE {"StepSelection"})
                       \cup (IF Le(s, limit) \/ Le(s, Zero) THEN {} ELSE {"StepWithinStabilityLimit"}))
            /\ UNCHANGED <<B, limit, user, cap, z, planes>>
TrPlane == /\ Live("Plane") /\ status \in {"march", "error"}
           /\ LET zn == ToL(Ev.z) IN
              /\ z' = zn /\ planes' = planes \cup {zn}
              /\ Note((IF status = "march" THEN {} ELSE {"NonPositiveStepIsAnError"})
                      \cup (IF Lt(z, zn) THEN {} ELSE {"StrictlyIncreasing"})
                      \cup (IF status # "march" \/ zn = NextPlane(B, z, step) THEN {} ELSE {"PlaneIsNextBoundaryOrStep"})
                      \cup (IF Le(zn, Len_) THEN {} ELSE {"NeverPastCoreLength"}))
           /\ UNCHANGED <<B, limit, user, cap, step, status>>
TrEnd == /\ Live("End")
         /\ Note((IF Ev.status = "hang" THEN {"TerminatesOrErrors"} ELSE {})
                 \cup (IF Ev.status = "crash" THEN {"ValidInputBuildsMesh"} ELSE {})
                 \cup (IF Ev.status = "error" /\ status # "error" THEN {"ValidInputBuildsMesh"} ELSE {})
                 \cup (IF Ev.status = "done" /\ status = "error" THEN {"NonPositiveStepIsAnError"} ELSE {})
                 \cup (IF Ev.status # "done" \/ z = Len_ THEN {} ELSE {"EndsAtCoreLength"})
                 \cup (IF Ev.status # "done" \/ B \subseteq planes THEN {} ELSE {"EveryBoundaryIsAPlane"}))
         /\ UNCHANGED avars
Report == /\ ~done /\ l > Len(T.ev)
          /\ PrintT(<<"VERDICT", tid, IF verdict = {} THEN "accept" ELSE "reject",
                      IF firstbad # 0 THEN firstbad ELSE l - 1, verdict>>)
          /\ done' = TRUE /\ UNCHANGED <<avars, tid, l, verdict, firstbad>>
Next == TrGapLimit \/ TrRegionLimit \/ TrSelect \/ TrPlane \/ TrEnd \/ Report
Spec == Init /\ [][Next]_vars
=============================================================================

SPECIFICATION Spec
CONSTANTS Lticks = 8
          MaxLimit = 10
          Variant = "no_reject"
PROPERTY Termination
CHECK_DEADLOCK FALSE

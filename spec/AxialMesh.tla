------------------------------ MODULE AxialMesh ------------------------------
(***************************************************************************)
(* Construction of the axial planes (C05).                                 *)
(*                                                                         *)
(* Positions are exact integers in picometres (1e-12 m, the resolution to  *)
(* which the solver rounds boundaries and planes) carried as limb pairs    *)
(* <<hi, lo>> in base 10^6, lo in 0..999999.                               *)
(*                                                                         *)
(*  B      merged boundary set (assembly regions, power mesh, requested    *)
(*         planes), rounded and de-duplicated; contains 0 and the length   *)
(*  limit  smallest stability requirement of any assembly or the gap       *)
(*  user   requested step (none = <<0,0>>)                                 *)
(*  cap    1 cm accuracy cap, applied only to the required step            *)
(* Step selection: the requested step if it is not above the limit, else    *)
(* the limit, floored to micrometres and capped.  Marching: from z the next *)
(* plane is z + step, clipped at the first boundary strictly inside         *)
(* (z, z + step).  A non-positive step is an error, never a hang.           *)
(***************************************************************************)
EXTENDS Integers, Sequences, FiniteSets
BASE == 1000000
Lt(x, y) == x[1] < y[1] \/ (x[1] = y[1] /\ x[2] < y[2])
Le(x, y) == x = y \/ Lt(x, y)
AddL(x, y) == LET lo == x[2] + y[2] IN
              IF lo >= BASE THEN <<x[1] + y[1] + 1, lo - BASE>> ELSE <<x[1] + y[1], lo>>
SubL(x, y) == LET lo == x[2] - y[2] IN
              IF lo < 0 THEN <<x[1] - y[1] - 1, lo + BASE>> ELSE <<x[1] - y[1], lo>>
Zero == <<0, 0>>
MinL(S) == CHOOSE x \in S : \A y \in S : Le(x, y)
MaxL(S) == CHOOSE x \in S : \A y \in S : Le(y, x)
\* floor to micrometres: lo limb counts pm below 1e-6 m
FloorMicron(x) == <<x[1], 0>>

\* the step the solver must use
Chosen(limit, user, cap) ==
  IF user # Zero /\ Le(user, FloorMicron(limit)) THEN user
  ELSE IF Lt(cap, FloorMicron(limit)) THEN cap ELSE FloorMicron(limit)

\* the next plane
Crossed(B, z, step) == {b \in B : Lt(z, b) /\ Lt(b, AddL(z, step))}
NextPlane(B, z, step) == IF Crossed(B, z, step) # {} THEN MinL(Crossed(B, z, step))
                         ELSE AddL(z, step)

VARIABLES B, limit, user, cap, step, z, planes, status
avars == <<B, limit, user, cap, step, z, planes, status>>
Len_ == MaxL(B)

AInit(b, lim, usr, cp) ==
  /\ B = b /\ limit = lim /\ user = usr /\ cap = cp
  /\ step = Zero /\ z = Zero /\ planes = {Zero} /\ status = "select"
Select(s) == /\ status = "select"
             /\ s = Chosen(limit, user, cap)
             /\ step' = s
             /\ status' = IF Le(s, Zero) THEN "error" ELSE "march"
             /\ UNCHANGED <<B, limit, user, cap, z, planes>>
Advance(zn) == /\ status = "march" /\ Lt(z, Len_)
               /\ zn = NextPlane(B, z, step)
               /\ z' = zn /\ planes' = planes \cup {zn}
               /\ status' = IF zn = Len_ THEN "done" ELSE "march"
               /\ UNCHANGED <<B, limit, user, cap, step>>

\* ---- properties --------------------------------------------------------
Mono == [][z' # z => Lt(z, z')]_avars
NeverPastEnd == Le(z, Len_)
Done == status = "done" =>
          /\ z = Len_ /\ B \subseteq planes /\ Zero \in planes
StepWithinLimit == status \in {"march", "done"} =>
          /\ Le(step, limit) \/ (user # Zero /\ step = user /\ Le(user, limit))
          /\ Lt(Zero, step)
UserHonoured == status \in {"march", "done"} /\ user # Zero =>
          (IF Le(user, FloorMicron(limit)) THEN step = user ELSE step # user \/ Le(user, limit))
=============================================================================

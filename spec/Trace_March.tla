----------------------------- MODULE Trace_March -----------------------------
(* Trace validation of recorded DASSH sweeps against March.tla.  Every      *)
(* event is one action of the march; its contract is evaluated by TLC on    *)
(* the logged integers, and the global balances are evaluated after every   *)
(* plane.  Verdicts: <<"VERDICT", tid, "accept"|"reject", l, clauses>>.     *)
EXTENDS March, Json, IOUtils, TLC
Traces == ndJsonDeserialize(IOEnv.TRACE_FILE)
VARIABLES tid, l, verdict, firstbad, done
vars == <<mvars, tid, l, verdict, firstbad, done>>
T == Traces[tid]
Ev == T.ev[l]
Exact == T.cfg.cls = "const"

Init == /\ tid \in 1..Len(Traces)
        /\ MInit(Traces[tid].cfg.nasm, Traces[tid].cfg.gap)
        /\ l = 1 /\ verdict = {} /\ firstbad = 0 /\ done = FALSE
Live(e) == ~done /\ l <= Len(T.ev) /\ Ev.e = e /\ pc # "done"
Step == l' = l + 1 /\ UNCHANGED <<tid, done>>
\* every failing clause of every event is collected; the march goes on with
\* the logged totals so that later events are still examined
Note(cl) == /\ verdict' = verdict \cup cl
            /\ firstbad' = IF cl # {} /\ firstbad = 0 THEN l ELSE firstbad
Reject(cl) == Note(cl) /\ UNCHANGED mvars

\* the node flows the enthalpy is carried by (subchannels and bypass cells)
\* add up to the assembly flow: o.mSum = 2^24 x (sum of node flows / flow)
FlowClauses(o) == IF o.mSum - 16777216 <= 4 /\ 16777216 - o.mSum <= 4 THEN {}
                  ELSE {"NodeFlowsSumToAssemblyFlow"}
TrStep0 == Live("Step0") /\ UNCHANGED mvars /\ Note(IF k = 1 /\ todo = Asm THEN {} ELSE {"StepOrder"}) /\ Step
TrAsm == /\ Live("AsmStep")
         /\ IF Ev.a \in Asm THEN AsmUpdate(Ev) /\ Note(AsmClauses(Ev) \cup FlowClauses(Ev))
            ELSE Reject({"StepOrder"})
         /\ Step
TrGap == /\ Live("Gap")
         /\ IF Len(Ev.CTot) = nasm THEN GapUpdate(Ev) /\ Note(GapClauses(Ev))
            ELSE Reject({"DuctHeatEqualsGapCredit"})
         /\ Step
TrGapOther == /\ Live("GapOther")
              /\ IF pc = "gap" /\ gapmodel = "other" THEN GapOther /\ Note({})
                 ELSE Reject({"GapAfterAllAssemblies"})
              /\ Step
TrRegion == /\ Live("Region")
            /\ (IF Ev.a \in Asm THEN RegionUpdate(Ev) ELSE UNCHANGED mvars)
            /\ Note(RegionClauses(Ev))
            /\ Step
\* after the plane: the global balances on the logged running totals
BoundaryClauses ==
  (IF ~Exact \/ SweepBal' THEN {} ELSE {"SweepBalance"})
  \cup (IF ~Exact \/ AsmBal' THEN {} ELSE {"AssemblyBalance"})
  \cup (IF ~Exact \/ CoreBal' THEN {} ELSE {"CoreBalance"})
  \cup (IF ~Exact \/ GapCredit' THEN {} ELSE {"GapCreditEqualsDuctLoss"})
  \cup (IF AdiabaticCore' THEN {} ELSE {"AdiabaticCore"})
TrEndStep == /\ Live("EndStep")
             /\ IF pc = "region" /\ Ev.k = k
                THEN EndStep /\ Note(BoundaryClauses)
                ELSE \* force the schedule forward so later planes are examined
                     /\ pc' = "asm" /\ k' = Ev.k + 1 /\ todo' = Asm
                     /\ UNCHANGED <<nasm, H, Q, G, W, O, pend, lagpend, lagged, lagvalid, Hgap, C, gapmodel, tmin, tmax>>
                     /\ Note({"StepOrder"})
             /\ Step
\* end of sweep: delivered power = assigned power (C03), totals as logged
FinishClauses(o) ==
  (IF AtBoundary THEN {} ELSE {"SweepEndsAtPlaneBoundary"})
  \cup (IF o.clipped = 0 THEN {} ELSE {"QuantisationRange"})
  \cup (IF \A a \in Asm : o.H[a] = H[a] /\ o.Q[a] = Q[a] /\ o.G[a] = G[a] /\ o.O[a] = O[a]
        THEN {} ELSE {"TotalsAsLogged"})
  \cup (IF \A a \in Asm : Close(o.delivered[a], Q[a] + G[a], TolSweep)
        THEN {} ELSE {"DeliveredIsSumOfSteps"})
  \cup (IF ~T.cfg.checkPower \/ \A a \in Asm : Close(o.delivered[a], o.assigned[a], TolSweep)
        THEN {} ELSE {"DeliveredEqualsAssigned"})
  \cup (IF ~T.cfg.checkPower \/ \A a \in Asm : Close(o.assigned[a], o.expected[a], TolSweep)
        THEN {} ELSE {"AssignedEqualsInputIntegral"})
  \cup (IF ~T.cfg.checkPower \/ Close(SumSeq(o.assigned), o.coreTotal, TolSweep + nasm)
        THEN {} ELSE {"AssemblyTotalsSumToCorePower"})
TrFinish == /\ Live("Finish")
            /\ Note(FinishClauses(Ev))
            /\ pc' = "done"
            /\ UNCHANGED <<nasm, k, todo, H, Q, G, W, O, pend, lagpend, lagged, lagvalid, Hgap, C, gapmodel, tmin, tmax>>
            /\ Step
\* the solver raised instead of finishing the sweep
TrCrash == /\ Live("Crash")
           /\ Note({"SweepRuns"})
           /\ pc' = "done"
           /\ UNCHANGED <<nasm, k, todo, H, Q, G, W, O, pend, lagpend, lagged, lagvalid, Hgap, C, gapmodel, tmin, tmax>>
           /\ Step
Report == /\ ~done
          /\ (l > Len(T.ev) \/ pc = "done")
          /\ PrintT(<<"VERDICT", tid,
                      IF verdict = {} /\ pc = "done" /\ l = Len(T.ev) + 1 THEN "accept" ELSE "reject",
                      IF firstbad # 0 THEN firstbad ELSE l - 1,
                      IF verdict # {} THEN verdict
                      ELSE IF pc # "done" THEN {"TraceEndsWithFinish"} ELSE {}>>)
          /\ done' = TRUE
          /\ UNCHANGED <<mvars, tid, l, verdict, firstbad>>
Next == TrCrash \/ TrStep0 \/ TrAsm \/ TrGap \/ TrGapOther \/ TrRegion \/ TrEndStep \/ TrFinish \/ Report
Spec == Init /\ [][Next]_vars
=============================================================================

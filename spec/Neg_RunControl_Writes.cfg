SPECIFICATION Spec
CONSTANTS
  NTP = 3
  NW = 0
  Keys = {1, 2}
  MAXREB = 2
  Variant = "writes"
INVARIANT InputUnchanged
INVARIANT ScheduleIndependent
INVARIANT OwnDirectory
PROPERTY AllWritten
CHECK_DEADLOCK FALSE

SPECIFICATION Spec
CONSTANTS MinN = 5
          MaxN = 5
          MaxND = 3
INVARIANT ThmCounts
INVARIANT ThmAdjSymmetric
INVARIANT ThmDegree
INVARIANT ThmPinFractions
INVARIANT ThmPinDegree
INVARIANT ThmEquivariant
INVARIANT ThmPinEquivariant
INVARIANT ThmSwirl
INVARIANT ThmSignatures
INVARIANT ThmLattice
CHECK_DEADLOCK FALSE

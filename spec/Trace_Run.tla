------------------------------ MODULE Trace_Run ------------------------------
(* Executions of one generated multi-time-point input by the real code      *)
(* (dassh.__main__.run_dassh serial, again from the same input object, in   *)
(* a multiprocessing pool, each time point alone, and direct constructions  *)
(* in a shuffled order), observed by wrappers around Reactor.__init__,      *)
(* temperature_sweep and postprocess.  Digests are interned: equal number   *)
(* = bitwise equal content.  Checked against RunControl.tla: every build    *)
(* sees and leaves the input as parsed; model, results and output files of  *)
(* a time point are functions of the time point only; one directory each.   *)
EXTENDS Integers, Sequences, FiniteSets, Json, IOUtils, TLC
Traces == ndJsonDeserialize(IOEnv.TRACE_FILE)
VARIABLES tid, l, verdict, firstbad, done, st
vars == <<tid, l, verdict, firstbad, done, st>>
T == Traces[tid]
Ev == T.ev[l]
NTP == T.ntp
\* st.parsed[run] digest of the parsed input of that run (0 unknown);
\* st.model/res/files[tp] first digest seen (0 none); st.dirs[run] = set of
\* <<dir, tp>> written
Init == tid \in 1..Len(Traces) /\ l = 1 /\ verdict = {} /\ firstbad = 0 /\ done = FALSE
        /\ st = [parsed |-> [r \in 1..T.nrun |-> 0],
                 model |-> [t \in 1..NTP |-> 0], res |-> [t \in 1..NTP |-> 0],
                 files |-> [t \in 1..NTP |-> 0],
                 dirs |-> [r \in 1..T.nrun |-> {}],
                 phase |-> [r \in 1..T.nrun |-> [t \in 1..NTP |-> "todo"]]]
Note(cl) == /\ verdict' = verdict \cup cl
            /\ firstbad' = IF cl # {} /\ firstbad = 0 THEN l ELSE firstbad
            /\ l' = l + 1 /\ UNCHANGED <<tid, done>>
Live(e) == ~done /\ l <= Len(T.ev) /\ Ev.e = e
Cl(ok, name) == IF ok THEN {} ELSE {name}
First(f, tp, d) == IF st[f][tp] = 0 THEN d ELSE st[f][tp]

TrParse == /\ Live("Parse")
           /\ st' = [st EXCEPT !.parsed[Ev.run] = Ev.d]
           /\ Note({})
TrBuild ==
  /\ Live("Build")
  /\ st' = [st EXCEPT !.model[Ev.tp] = First("model", Ev.tp, Ev.model),
                      !.phase[Ev.run][Ev.tp] = "built"]
  /\ Note(Cl(Ev.pre = st.parsed[Ev.run], "BuildSeesInputAsParsed")
          \cup Cl(Ev.post = Ev.pre, "BuildLeavesInputUnchanged")
          \cup Cl(First("model", Ev.tp, Ev.model) = Ev.model, "SameModelForTimePoint"))
TrSweep ==
  /\ Live("Sweep")
  /\ st' = [st EXCEPT !.res[Ev.tp] = First("res", Ev.tp, Ev.res),
                      !.phase[Ev.run][Ev.tp] = "swept"]
  /\ Note(Cl(st.phase[Ev.run][Ev.tp] = "built", "SweepAfterBuild")
          \cup Cl(First("res", Ev.tp, Ev.res) = Ev.res, "BitwiseSameResults")
          \cup Cl(Ev.post = st.parsed[Ev.run], "SweepLeavesInputUnchanged"))
TrWrite ==
  /\ Live("Write")
  /\ st' = [st EXCEPT !.files[Ev.tp] = First("files", Ev.tp, Ev.files),
                      !.dirs[Ev.run] = @ \cup {<<Ev.dir, Ev.tp>>},
                      !.phase[Ev.run][Ev.tp] = "written"]
  /\ Note(Cl(First("files", Ev.tp, Ev.files) = Ev.files, "SameOutputFilesForTimePoint")
          \cup Cl(\A p \in st.dirs[Ev.run] : p[1] = Ev.dir => p[2] = Ev.tp, "OwnDirectory")
          \cup Cl(Ev.dir = Ev.expdir, "DirectoryOfTimePoint")
          \cup Cl(Ev.stray = 0, "WritesOnlyInOwnDirectory"))
\* end of a run: every time point of the run was written
TrEnd == /\ Live("End") /\ UNCHANGED st
         /\ Note(Cl(\A t \in 1..NTP : Ev.tps[t] = 0 \/ st.phase[Ev.run][t] = "written",
                    "EveryTimePointWritten"))
\* a clone of the input was edited all over between two runs
TrClone == /\ Live("Clone") /\ UNCHANGED st
           /\ Note(Cl(Ev.post = st.parsed[Ev.run], "EditingACloneLeavesTheInputUnchanged"))
TrCrash == Live("Crash") /\ UNCHANGED st /\ Note({"RunsWithoutError"})
Report == /\ ~done /\ l > Len(T.ev)
          /\ PrintT(<<"VERDICT", tid, IF verdict = {} THEN "accept" ELSE "reject",
                      IF firstbad # 0 THEN firstbad ELSE l - 1, verdict>>)
          /\ done' = TRUE /\ UNCHANGED <<tid, l, verdict, firstbad, st>>
Next == TrParse \/ TrBuild \/ TrSweep \/ TrWrite \/ TrEnd \/ TrClone \/ TrCrash \/ Report
Spec == Init /\ [][Next]_vars
=============================================================================

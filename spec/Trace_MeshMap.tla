---------------------------- MODULE Trace_MeshMap ----------------------------
(* Validation of the duct <-> gap transfer matrices the real code builds    *)
(* (mesh_functions._map_asm2gap) against the overlap definition of          *)
(* MeshMap.tla.  Synthetic traces carry integer boundary vectors and the     *)
(* code's matrix entries in units of 1/Q; recorded traces (maps installed    *)
(* by the Reactor) carry the property quantities formed with real lengths.   *)
EXTENDS MeshMap, Json, IOUtils, TLC
Traces == ndJsonDeserialize(IOEnv.TRACE_FILE)
VARIABLES tid, l, verdict, firstbad, done
vars == <<tid, l, verdict, firstbad, done>>
T == Traces[tid]
Ev == T.ev[l]
Q == 1048576
Close(x, y, tol) == x - y <= tol /\ y - x <= tol
RECURSIVE SumSeq(_, _)
SumSeq(s, n) == IF n = 0 THEN 0 ELSE s[n] + SumSeq(s, n - 1)
Init == tid \in 1..Len(Traces) /\ l = 1 /\ verdict = {} /\ firstbad = 0 /\ done = FALSE
Note(cl) == /\ verdict' = verdict \cup cl
            /\ firstbad' = IF cl # {} /\ firstbad = 0 THEN l ELSE firstbad
            /\ l' = l + 1 /\ UNCHANGED <<tid, done>>
Live(e) == ~done /\ l <= Len(T.ev) /\ Ev.e = e
XC == T.cfg.xc
XF == T.cfg.xf
\* row c of the fine -> coarse matrix
F2CClauses(o) ==
  LET c == o.c  len == CellLen(XC, c) IN
  (IF Len(o.w) = NC(XF) THEN {} ELSE {"MatrixShape"})
  \cup (IF \A f \in 1..Len(o.w) : o.w[f] >= -o.tol THEN {} ELSE {"WeightsNonNegative"})
  \cup (IF Close(SumSeq(o.w, Len(o.w)), Q, o.tol + Len(o.w)) THEN {} ELSE {"UniformFieldReproduced"})
  \cup (IF Len(o.w) = NC(XF) /\ \A f \in 1..NC(XF) :
             Close(o.w[f] * len, Ov(XC, c, XF, f) * Q, (o.tol + 1) * len)
        THEN {} ELSE {"WeightIsOverlapFraction"})
TrF2C == Live("F2C") /\ Note(F2CClauses(Ev))
C2FClauses(o) ==
  LET f == o.f  len == CellLen(XF, f) IN
  (IF Len(o.w) = NC(XC) THEN {} ELSE {"MatrixShape"})
  \cup (IF \A c \in 1..Len(o.w) : o.w[c] >= -o.tol THEN {} ELSE {"WeightsNonNegative"})
  \cup (IF Close(SumSeq(o.w, Len(o.w)), Q, o.tol + Len(o.w)) THEN {} ELSE {"UniformFieldReproduced"})
  \cup (IF Len(o.w) = NC(XC) /\ \A c \in 1..NC(XC) :
             Close(o.w[c] * len, Ov(XC, c, XF, f) * Q, (o.tol + 1) * len)
        THEN {} ELSE {"WeightIsOverlapFraction"})
TrC2F == Live("C2F") /\ Note(C2FClauses(Ev))
\* perimeter-weighted integral preserved (harness forms the products with
\* the real cell lengths): for every unit vector on one mesh the image on
\* the other mesh carries the same integral
PropClauses(o) ==
  (IF \A i \in 1..Len(o.consF2C) : Close(o.consF2C[i], Q, o.tol) THEN {} ELSE {"IntegralPreservedFineToCoarse"})
  \cup (IF \A i \in 1..Len(o.consC2F) : Close(o.consC2F[i], Q, o.tol) THEN {} ELSE {"IntegralPreservedCoarseToFine"})
  \cup (IF \A i \in 1..Len(o.rowF2C) : Close(o.rowF2C[i], Q, o.tol) THEN {} ELSE {"UniformFieldReproduced"})
  \cup (IF \A i \in 1..Len(o.rowC2F) : Close(o.rowC2F[i], Q, o.tol) THEN {} ELSE {"UniformFieldReproduced"})
  \cup (IF o.nonneg = 1 THEN {} ELSE {"WeightsNonNegative"})
  \cup (IF o.same = 0 \/ o.identity = 1 THEN {} ELSE {"IdentityWhenMeshesCoincide"})
  \cup (IF o.flux = 1 THEN {} ELSE {"SameHeatOnBothMeshes"})
TrProps == Live("Props") /\ Note(PropClauses(Ev))
\* cells between two sides that no pin bundle defines are one hexagon side long
TrCells == Live("Cells") /\ Note(IF Ev.got >= Ev.want THEN {} ELSE {"CornerOnlySidesMeetAtMidSide"})
TrFail == Live("BuildFailed") /\ Note({"MapCanBeBuilt"})
Report == /\ ~done /\ l > Len(T.ev)
          /\ PrintT(<<"VERDICT", tid, IF verdict = {} THEN "accept" ELSE "reject",
                      IF firstbad # 0 THEN firstbad ELSE l - 1, verdict>>)
          /\ done' = TRUE /\ UNCHANGED <<tid, l, verdict, firstbad>>
Next == TrF2C \/ TrC2F \/ TrProps \/ TrCells \/ TrFail \/ Report
Spec == Init /\ [][Next]_vars
=============================================================================

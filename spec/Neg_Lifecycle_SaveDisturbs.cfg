SPECIFICATION Spec
CONSTANTS
  MaxObj = 3
  MaxOps = 4
  SaveDisturbs = TRUE
  Emit = FALSE
INVARIANT UnsweptObjectsAtInlet
CHECK_DEADLOCK FALSE

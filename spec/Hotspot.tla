------------------------------- MODULE Hotspot -------------------------------
(***************************************************************************)
(* C19: semi-statistical horizontal hot-spot method.                       *)
(*                                                                         *)
(* For one assembly: nominal temperature rises dT[j] >= 0 of the J terms   *)
(* (coolant, film, cladding, gap, fuel), direct subfactors d[i][j] and     *)
(* statistical subfactors g[s][j] (input confidence IN sigma).             *)
(*   zero[j]  = dT[j] * PROD_i d[i][j]           (zero-sigma rises)        *)
(*   unc[s][j] = SUM_{m <= j} zero[m] * (g[s][m] - 1)                      *)
(*   hot[j]  = T_in + SUM_{m <= j} zero[m]                                 *)
(*              + OUT / IN * sqrt( SUM_s unc[s][j]^2 )                     *)
(* Subfactors are rationals n/4 here (integers 4, 5, 6 = 1, 5/4, 3/2), so  *)
(* everything is scaled to integers; the square root is never taken:        *)
(* statements are made on  stat2[j] = SUM_s unc[s][j]^2.                    *)
(***************************************************************************)
EXTENDS Integers, Sequences, FiniteSets
CONSTANTS J
VARIABLES dT, d, g          \* one direct and two statistical subfactors
hvars == <<dT, d, g>>
RECURSIVE Cum(_, _)
Cum(f, j) == IF j = 0 THEN 0 ELSE f[j] + Cum(f, j - 1)
Zero4 == [j \in 1..J |-> dT[j] * d[j]]                   \* 4 * zero
Nom == [j \in 1..J |-> Cum(dT, j)]
CumZero4 == [j \in 1..J |-> Cum(Zero4, j)]
Unc16(s) == [j \in 1..J |-> Cum([m \in 1..J |-> Zero4[m] * (g[s][m] - 4)], j)]
Stat2(j) == Unc16(1)[j] * Unc16(1)[j] + Unc16(2)[j] * Unc16(2)[j]
\* theorems
UnityIsNominal == (\A j \in 1..J : d[j] = 4 /\ g[1][j] = 4 /\ g[2][j] = 4)
                  => \A j \in 1..J : CumZero4[j] = 4 * Nom[j] /\ Stat2(j) = 0
AtLeastNominal == \A j \in 1..J : CumZero4[j] >= 4 * Nom[j] /\ Stat2(j) >= 0
                                  /\ Unc16(1)[j] >= 0 /\ Unc16(2)[j] >= 0
\* cumulative: each location adds its own (non-negative) rise, both in the
\* zero-sigma part and in the statistical part
Cumulative == \A j \in 1..(J - 1) : CumZero4[j] <= CumZero4[j + 1]
                                    /\ Stat2(j) <= Stat2(j + 1)
\* hot - zero part = OUT/IN * sqrt(stat2): increasing in OUT, inverse in IN
\* (stated on the squares: (OUT1 * IN2)^2 <= (OUT2 * IN1)^2 ...)
MonotoneScaling == \A o1, o2 \in 0..3 : \A i1, i2 \in 1..3 :
   o1 * i2 <= o2 * i1 => \A j \in 1..J :
      o1 * o1 * i2 * i2 * Stat2(j) <= o2 * o2 * i1 * i1 * Stat2(j)
=============================================================================

SPECIFICATION Spec
CONSTANTS P = 7
INVARIANT Thm
CHECK_DEADLOCK FALSE

---------------------------- MODULE Trace_Bundle ----------------------------
(***************************************************************************)
(* Trace validation of the structure the implementation builds for a pin  *)
(* bundle (Subchannel / PinLattice / RoddedRegion) against Bundle.tla.     *)
(*                                                                         *)
(* One trace = one construction.  The harness projects every published     *)
(* centroid to lattice coordinates (geometry only) and then reports what   *)
(* the CODE's index tables say about that cell: its type, its neighbours,  *)
(* its pins, its clockwise successor / predecessor.  Each "Cell" event is  *)
(* the declaration of one cell; "Pin" events declare pin -> cell incidence *)
(* and the heat fractions the code uses; "Areas" carries the tiling        *)
(* identities in quanta; "Seal" closes the structure (completeness).       *)
(* Verdicts are total: <<"VERDICT", tid, "accept"|"reject", l, clauses>>.  *)
(***************************************************************************)
EXTENDS Bundle, Json, IOUtils, TLC
Traces == ndJsonDeserialize(IOEnv.TRACE_FILE)

VARIABLES tid, l, seen, pinsSeen, sealed, verdict, done
vars == <<tid, l, seen, pinsSeen, sealed, verdict, done>>

T == Traces[tid]
N == T.cfg.N
ND == T.cfg.ND
Ev == T.ev[l]
ToCell(x) == <<x[1], x[2], <<x[3], x[4]>>>>
ToPt(x) == <<x[1], x[2]>>
SeqSet(s) == {s[i] : i \in 1..Len(s)}
CellSet(s) == {ToCell(s[i]) : i \in 1..Len(s)}
PtSet(s) == {ToPt(s[i]) : i \in 1..Len(s)}

Init == /\ tid \in 1..Len(Traces)
        /\ l = 1 /\ seen = {} /\ pinsSeen = {} /\ sealed = FALSE
        /\ verdict = {} /\ done = FALSE

Live(e) == ~done /\ verdict = {} /\ l <= Len(T.ev) /\ Ev.e = e /\ ~sealed

\* ---- clauses for a Cell event -------------------------------------------
CellClauses(c, o) ==
  (IF IsCell(c, N, ND) THEN {} ELSE {"CellExists"})
  \cup (IF c \in seen THEN {"CellDeclaredOnce"} ELSE {})
  \cup (IF o.typ = c[1] THEN {} ELSE {"TypeMatchesGeometry"})
  \cup (IF IsCell(c, N, ND) /\ CellSet(o.nb) # Adj(c, N, ND)
        THEN {"AdjacencyMatchesGeometry"} ELSE {})
  \cup (IF IsCell(c, N, ND) /\ Len(o.nb) # Cardinality(CellSet(o.nb))
        THEN {"NoDuplicateNeighbour"} ELSE {})
  \cup (IF IsCell(c, N, ND) /\ c[1] \in 1..3 /\ PtSet(o.pins) # CellPins(c, N)
        THEN {"PinIncidenceMatchesGeometry"} ELSE {})
  \cup (IF IsCell(c, N, ND) /\ c[1] \in {2, 3}
           /\ (ToCell(o.next) # ExtAt(N, CWNext(N, ExtPos(N, c)))
               \/ ToCell(o.prev) # ExtAt(N, CCWNext(N, ExtPos(N, c))))
        THEN {"ClockwiseRingOrder"} ELSE {})
  \cup (IF IsCell(c, N, ND) /\ c[1] \in {2, 3}
           /\ (ToCell(o.donorCW) # ExtAt(N, SwirlDonor(N, ExtPos(N, c), "clockwise"))
               \/ ToCell(o.donorCCW) # ExtAt(N, SwirlDonor(N, ExtPos(N, c), "counterclockwise")))
        THEN {"SwirlDonorByWireDirection"} ELSE {})
  \cup (IF o.cent = 1 THEN {} ELSE {"CentroidConsistent"})
  \cup (IF c[1] \in 1..3 /\ o.f12 # Frac12(c[1])
        THEN {"HeatFractionPerKind"} ELSE {})

TrCell == /\ Live("Cell")
          /\ LET c == ToCell(Ev.k) f == CellClauses(c, Ev) IN
             /\ verdict' = f
             /\ seen' = seen \cup {c}
          /\ l' = l + 1
          /\ UNCHANGED <<tid, pinsSeen, sealed, done>>

\* ---- Pin events -----------------------------------------------------------
PinClauses(p, o) ==
  (IF IsPin(p, N) THEN {} ELSE {"PinExists"})
  \cup (IF p \in pinsSeen THEN {"PinDeclaredOnce"} ELSE {})
  \cup (IF IsPin(p, N) /\ CellSet(o.cells) # PinCells(p, N)
        THEN {"PinCellsMatchGeometry"} ELSE {})
  \cup (IF o.f12 = 12 THEN {} ELSE {"PinFractionsSumToOne"})
  \cup (IF IsPin(p, N) /\ PtSet(o.nbpins) # {x \in Neighbors(p) : IsPin(x, N)}
        THEN {"PinNeighboursMatchGeometry"} ELSE {})
TrPin == /\ Live("Pin")
         /\ LET p == ToPt(Ev.p) IN
            /\ verdict' = PinClauses(p, Ev)
            /\ pinsSeen' = pinsSeen \cup {p}
         /\ l' = l + 1
         /\ UNCHANGED <<tid, seen, sealed, done>>

\* ---- Areas: tiling identities, all in quanta of the reference area ------
Close(x, y, tol) == x - y <= tol /\ y - x <= tol
AreaClauses(o) ==
  (IF Close(o.cool + o.pins + o.wire, o.hex, o.tol) THEN {} ELSE {"FlowAreasTileInnerHexagon"})
  \cup (IF Close(o.bundleArea, o.cool, o.tol) THEN {} ELSE {"BundleAreaIsSumOfCells"})
  \cup (IF \A i \in 1..Len(o.duct) : Close(o.duct[i][1], o.duct[i][2], o.tol)
        THEN {} ELSE {"DuctCellsTileAnnulus"})
  \cup (IF \A i \in 1..Len(o.byp) : Close(o.byp[i][1], o.byp[i][2], o.tol)
        THEN {} ELSE {"BypassCellsTileAnnulus"})
  \cup (IF \A i \in 1..Len(o.regionArea) : Close(o.regionArea[i][1], o.regionArea[i][2], o.tol)
        THEN {} ELSE {"RegionAreaArraysMatchTypes"})
  \cup (IF o.positive = 1 THEN {} ELSE {"AreasPositive"})
TrAreas == /\ Live("Areas")
           /\ verdict' = AreaClauses(Ev)
           /\ l' = l + 1
           /\ UNCHANGED <<tid, seen, pinsSeen, sealed, done>>

\* ---- Seal: completeness ---------------------------------------------------
SealClauses(o) ==
  (IF Cardinality(seen) = 6 * (N - 1) * (N - 1) + 6 * N + 6 * N * NRho(ND)
      /\ \A c \in seen : IsCell(c, N, ND)
   THEN {} ELSE {"EveryCellDeclared"})
  \cup (IF pinsSeen = Pins(N) THEN {} ELSE {"EveryPinDeclared"})
  \cup (IF o.nInt = 6 * (N - 1) * (N - 1) /\ o.nEdge = 6 * (N - 1) /\ o.nCorner = 6
           /\ o.nDuct = 6 * N /\ o.nByp = (IF ND > 1 THEN 6 * N ELSE 0)
           /\ o.nTotal = 6 * (N - 1) * (N - 1) + 6 * N + 6 * N * NRho(ND)
           /\ o.nPin = NPins(N)
        THEN {} ELSE {"CountsMatchFormula"})
  \cup (IF o.sym6 = 1 /\ o.mirror = 1 THEN {} ELSE {"CentroidsSixFoldSymmetric"})
  \cup (IF o.pinLattice = 1 THEN {} ELSE {"PinCentresOnLattice"})
TrSeal == /\ Live("Seal")
          /\ verdict' = SealClauses(Ev)
          /\ sealed' = TRUE
          /\ l' = l + 1
          /\ UNCHANGED <<tid, seen, pinsSeen, done>>

\* ---- construction failed ---------------------------------------------------
TrBuildFailed == /\ Live("BuildFailed")
                 /\ verdict' = {"BundleCanBeBuilt"}
                 /\ l' = l + 1
                 /\ UNCHANGED <<tid, seen, pinsSeen, sealed, done>>

Finish == /\ ~done
          /\ (verdict # {} \/ l > Len(T.ev) \/ sealed)
          /\ PrintT(<<"VERDICT", tid,
                      IF verdict = {} /\ sealed /\ l = Len(T.ev) + 1
                      THEN "accept" ELSE "reject",
                      l - 1,
                      IF verdict # {} THEN verdict
                      ELSE IF ~sealed THEN {"TraceEndsWithSeal"}
                      ELSE IF l # Len(T.ev) + 1 THEN {"NothingAfterSeal"} ELSE {}>>)
          /\ done' = TRUE
          /\ UNCHANGED <<tid, l, seen, pinsSeen, sealed, verdict>>

Next == TrCell \/ TrPin \/ TrAreas \/ TrSeal \/ TrBuildFailed \/ Finish
Spec == Init /\ [][Next]_vars
=============================================================================

SPECIFICATION Spec
CONSTANTS R = 1
          TolStep = 0
          TolBook = 0
          TolSweep = 0
          TolT = 0
          NA = 2
          Planes = 3
          Variant = "sixnode"
INVARIANT InvSweep
INVARIANT InvCoreLag
CONSTRAINT Bounded
CHECK_DEADLOCK FALSE

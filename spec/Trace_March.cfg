SPECIFICATION Spec
CONSTANTS R = 64
          TolStep = 6
          TolBook = 4
          TolSweep = 6
          TolT = 2
CHECK_DEADLOCK FALSE

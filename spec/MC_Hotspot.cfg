SPECIFICATION Spec
CONSTANTS J = 2
INVARIANT UnityIsNominal
INVARIANT AtLeastNominal
INVARIANT Cumulative
INVARIANT MonotoneScaling
CHECK_DEADLOCK FALSE

SPECIFICATION Spec
CONSTANTS
  NA = 4
  PMAX = 2
  CUTS = {50}
  DELTAS = {30}
  SC = 1000
  ITMAX = 40
  TYPES = {1, 2}
  LIMS = {0, 10, 14}
  MT = 48
  FACT <- FactDef
  DMAX = 2
  Rule = "fixed"
INVARIANT TypeOK
INVARIANT Partition
INVARIANT Ordered
INVARIANT SameFlowInGroup
INVARIANT SumIsTotal
INVARIANT LimitNeverExceeded
CHECK_DEADLOCK FALSE

----------------------------- MODULE Trace_Track -----------------------------
(* Validation of recorded sweeps against AsmTrack.tla: one Track event per  *)
(* assembly per plane, a Finish event with the reported totals and peaks.   *)
EXTENDS AsmTrack, Json, IOUtils, TLC
Traces == ndJsonDeserialize(IOEnv.TRACE_FILE)
VARIABLES tid, l, verdict, firstbad, done
vars == <<tvars, tid, l, verdict, firstbad, done>>
T == Traces[tid]
TolTab == 30000
Ev == T.ev[l]
Init == /\ tid \in 1..Len(Traces)
        /\ TInit(Traces[tid].cfg.nasm, Traces[tid].cfg.grids,
                 Traces[tid].cfg.nslots, Traces[tid].cfg.npin)
        /\ l = 1 /\ verdict = {} /\ firstbad = 0 /\ done = FALSE
Note(cl) == /\ verdict' = verdict \cup cl
            /\ firstbad' = IF cl # {} /\ firstbad = 0 THEN l ELSE firstbad
            /\ l' = l + 1 /\ UNCHANGED <<tid, done>>
Live(e) == ~done /\ l <= Len(T.ev) /\ Ev.e = e
TrTrack == /\ Live("Track")
           /\ PressureUpdate(Ev) /\ PeakUpdate(Ev)
           /\ UNCHANGED <<nasm, grids>>
           /\ Note(PressureClauses(Ev) \cup PeakClauses(Ev))
FinishClauses(o) ==
  (IF \A a \in Asm : GridOnce(a, T.cfg.blo[a], T.cfg.bhi[a]) THEN {} ELSE {"EachGridCountedExactlyOnce"})
  \cup (IF \A a \in Asm : Close(o.P[a], F[a] + S[a] + G[a], TolP) THEN {} ELSE {"ReportedTotalIsSumOfSteps"})
  \cup (IF T.cfg.exact = 0 \/ \A a \in Asm : Close(o.P[a], o.closed[a], TolP + 2)
        THEN {} ELSE {"TotalEqualsClosedForm"})
  \cup (IF \A a \in Asm : o.pkC[a] = pkC[a] THEN {} ELSE {"ReportedPeakCoolant"})
  \cup (IF \A a \in Asm : o.pkD[a] = pkD[a] THEN {} ELSE {"ReportedPeakDuct"})
  \cup (IF o.tables = 1 THEN {} ELSE {"SummaryTablesMatchFinalFields"})
  \* the printed pressure-drop table (1e-4 of the largest total = TolTab
  \* quanta: 5 significant digits) shows the accumulated ledger; a part may be
  \* left blank (-1) only when it is zero / not requested / there is no bundle
  \cup (IF o.ptab = <<>> \/ \A a \in Asm :
            LET t == o.ptab[a]  bundle == T.cfg.blo[a] # T.cfg.bhi[a] IN
            /\ Close(t[1], F[a] + S[a] + G[a], TolTab)
            /\ Close(t[5], t[1], TolTab)
            /\ (IF t[2] = -1 THEN ~bundle ELSE Close(t[2], F[a], TolTab))
            /\ (IF t[3] = -1 THEN ~bundle \/ S[a] <= TolTab ELSE Close(t[3], S[a], TolTab))
            /\ (IF t[4] = -1 THEN ~bundle \/ T.cfg.gravity = 0 ELSE Close(t[4], G[a], TolTab))
        THEN {} ELSE {"PressureTablePrintsTheLedger"})
  \* the per-step pressure-drop dump: its last row shows the accumulated
  \* ledger of all regions, part by part, and in every row the total is the
  \* sum of the three parts (the row that deviates most is logged)
  \cup (IF o.pdump = <<>> \/ \A a \in Asm :
            LET t == o.pdump[a] IN
            /\ Close(t[1], F[a] + S[a] + G[a], TolP)
            /\ Close(t[2], F[a], TolP) /\ Close(t[3], S[a], TolP)
            /\ Close(t[4], G[a], TolP) /\ Close(t[5], t[6], TolP)
        THEN {} ELSE {"PressureDumpShowsTheLedger"})
TrFinish == Live("Finish") /\ UNCHANGED tvars /\ Note(FinishClauses(Ev))
TrCrash == Live("Crash") /\ UNCHANGED tvars /\ Note({"SweepRuns"})
Report == /\ ~done /\ l > Len(T.ev)
          /\ PrintT(<<"VERDICT", tid, IF verdict = {} THEN "accept" ELSE "reject",
                      IF firstbad # 0 THEN firstbad ELSE l - 1, verdict>>)
          /\ done' = TRUE /\ UNCHANGED <<tvars, tid, l, verdict, firstbad>>
Next == TrTrack \/ TrFinish \/ TrCrash \/ Report
Spec == Init /\ [][Next]_vars
=============================================================================

--------------------------- MODULE Lifecycle ---------------------------
(***************************************************************************)
(* Life of Reactor objects made from one input: built, saved to the        *)
(* reactor file, loaded from it (a new object), swept.  A sweep is a       *)
(* function of the input alone, so every object that has been swept holds  *)
(* the same results, whatever was saved or loaded before; saving does not  *)
(* change the object that is saved; a loaded object is what was saved.     *)
(* Objects are numbered in order of creation; object 1 is built first.     *)
(* Abstract value of an object: "init" (all fields at the inlet state) or  *)
(* "res" (the results of the sweep).                                       *)
(* The `hist` variable lists the operations; finished histories are        *)
(* printed (generator configuration) and replayed into the real class      *)
(* (harness/lifecycle.py), comparing after every operation the partition   *)
(* of the live objects and of the file by value with the partition of      *)
(* their field digests.                                                    *)
(***************************************************************************)
EXTENDS Naturals, FiniteSets, Sequences, TLC
CONSTANTS MaxObj, MaxOps, SaveDisturbs, Emit
VARIABLES objs, file, hist
vars == <<objs, file, hist>>
None == [stage |-> "none", val |-> "none"]
Built == [stage |-> "built", val |-> "init"]
Swept == [stage |-> "swept", val |-> "res"]
Ids == 1..MaxObj
Live == {o \in Ids : objs[o] # None}
NextId == Cardinality(Live) + 1
TypeOK == /\ objs \in [Ids -> {None, Built, Swept, [stage |-> "built", val |-> "closed"]}]
          /\ file \in {None, Built, Swept}
          /\ Len(hist) <= MaxOps
Init == /\ objs = [o \in Ids |-> IF o = 1 THEN Built ELSE None]
        /\ file = None
        /\ hist = <<>>
More == Len(hist) < MaxOps
\* record of one operation: name, object, values of all objects and of the
\* file after it
Rec(op, o) == <<op, o, [i \in Ids |-> objs'[i].val], file'.val>>
Last(h) == h[Len(h)]
Did(op, o) == hist' # hist /\ Last(hist')[1] = op /\ Last(hist')[2] = o
\* Reactor(inp): another object from the same input
Build == /\ More /\ NextId \in Ids
         /\ objs' = [objs EXCEPT ![NextId] = Built]
         /\ UNCHANGED file
         /\ hist' = Append(hist, Rec("Build", NextId))
\* Reactor.save(): the object as it is goes to the file; the object stays as it is
Save(o) == /\ More /\ o \in Live
           /\ file' = objs[o]
           /\ objs' = IF SaveDisturbs /\ objs[o].stage = "built"
                      THEN [objs EXCEPT ![o] = [stage |-> "built", val |-> "closed"]]
                      ELSE objs
           /\ hist' = Append(hist, Rec("Save", o))
\* reactor.load(): a new object equal to the one that was saved
Load == /\ More /\ file # None /\ NextId \in Ids
        /\ objs' = [objs EXCEPT ![NextId] = file]
        /\ UNCHANGED file
        /\ hist' = Append(hist, Rec("Load", NextId))
\* Reactor.temperature_sweep() on an object that has not been swept
Sweep(o) == /\ More /\ o \in Live /\ objs[o].stage = "built"
            /\ objs' = [objs EXCEPT ![o] = Swept]
            /\ UNCHANGED file
            /\ hist' = Append(hist, Rec("Sweep", o))
Next == Build \/ Load \/ \E o \in Ids : Save(o) \/ Sweep(o)
Spec == Init /\ [][Next]_vars

\* ---- properties -----------------------------------------------------------
SweptObjectsAgree == \A a, b \in Live : objs[a].stage = "swept" /\ objs[b].stage = "swept"
                                         => objs[a].val = objs[b].val
UnsweptObjectsAtInlet == \A a \in Live : objs[a].stage = "built" => objs[a].val = "init"
FileIsAnObjectState == file # None => file \in {Built, Swept}
SavingLeavesTheObjectAlone ==
  [][\A o \in Ids : Did("Save", o) => objs' = objs]_vars
LoadedIsWhatWasSaved ==
  [][\A o \in Ids : Did("Load", o) => objs'[o] = file]_vars
ObjectsNeverGoBack ==
  [][\A o \in Ids : objs[o].stage = "swept" => objs'[o] = objs[o]]_vars
\* generator: finished histories (at the bound, or nothing left to do)
EmitDone == (Emit /\ Len(hist) = MaxOps) =>
              PrintT(<<"LIFE", hist>>)
=============================================================================

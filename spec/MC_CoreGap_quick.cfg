SPECIFICATION Spec
CONSTANTS NT = 2
INVARIANT Thm
CONSTRAINT Small
CHECK_DEADLOCK FALSE

------------------------------ MODULE MeshMap ------------------------------
(***************************************************************************)
(* Transfer of values between two meshes of the same closed duct perimeter *)
(* (C10): the duct mesh of an axial region ("coarse") and the gap mesh     *)
(* around the assembly ("fine").                                           *)
(*                                                                         *)
(* A mesh is a boundary vector x[1] = 0 < x[2] < ... < x[n] = P (integer   *)
(* ticks).  Cell 1 = [x1,x2] and cell n-1 = [x(n-1),xn] are the two halves *)
(* of the top corner cell, which wraps around the start of the perimeter;  *)
(* they form ONE cell, listed last.  Merged cells: k = 1..n-3 is            *)
(* [x(k+1), x(k+2)], k = n-2 is the top corner.                             *)
(*   O[c][f]  = length of the overlap of coarse cell c and fine cell f      *)
(*   F2C[c][f] = O[c][f] / len_c     (fine -> coarse, rows sum to 1)        *)
(*   C2F[f][c] = O[c][f] / len_f     (coarse -> fine, rows sum to 1)        *)
(* Everything is stated cross-multiplied, in integers.                      *)
(***************************************************************************)
EXTENDS Integers, Sequences, FiniteSets
Max2(a, b) == IF a >= b THEN a ELSE b
Min2(a, b) == IF a <= b THEN a ELSE b
NC(x) == Len(x) - 2                         \* number of merged cells
\* raw cells j = 1..Len(x)-1 ; merged cell k -> set of raw cells
Raw(x, k) == IF k = NC(x) THEN {1, Len(x) - 1} ELSE {k + 1}
RawLen(x, j) == x[j + 1] - x[j]
CellLen(x, k) == LET S == Raw(x, k) IN
   IF k = NC(x) THEN RawLen(x, 1) + RawLen(x, Len(x) - 1) ELSE RawLen(x, k + 1)
RawOv(x, i, y, j) == Max2(0, Min2(x[i + 1], y[j + 1]) - Max2(x[i], y[j]))
RECURSIVE SumOv(_, _, _, _)
SumOv(x, I, y, J) ==
  IF I = {} THEN 0
  ELSE LET i == CHOOSE a \in I : TRUE IN
       (LET RECURSIVE Inner(_)
            Inner(JJ) == IF JJ = {} THEN 0
                         ELSE LET j == CHOOSE b \in JJ : TRUE IN RawOv(x, i, y, j) + Inner(JJ \ {j})
        IN Inner(J)) + SumOv(x, I \ {i}, y, J)
Ov(xc, c, xf, f) == SumOv(xc, Raw(xc, c), xf, Raw(xf, f))
ValidMesh(x, P) == /\ Len(x) >= 3 /\ x[1] = 0 /\ x[Len(x)] = P
                   /\ \A i \in 1..(Len(x) - 1) : x[i] < x[i + 1]
RECURSIVE SumK(_, _)
SumK(F(_), n) == IF n = 0 THEN 0 ELSE F(n) + SumK(F, n - 1)
\* theorems (MC_MeshMap): partition of each cell by the other mesh
RowsPartition(xc, xf) ==
  /\ \A c \in 1..NC(xc) : LET F(f) == Ov(xc, c, xf, f) IN SumK(F, NC(xf)) = CellLen(xc, c)
  /\ \A f \in 1..NC(xf) : LET F(c) == Ov(xc, c, xf, f) IN SumK(F, NC(xc)) = CellLen(xf, f)
IdentityWhenEqual(x) ==
  \A c, f \in 1..NC(x) : Ov(x, c, x, f) = (IF c = f THEN CellLen(x, c) ELSE 0)
\* Conservative: SUM_c len_c (F2C v)_c = SUM_c SUM_f O[c][f] v_f = SUM_f len_f v_f
\* follows from the column partition; stated for unit vectors:
Conservative(xc, xf) ==
  \A f \in 1..NC(xf) : LET F(c) == Ov(xc, c, xf, f) IN SumK(F, NC(xc)) = CellLen(xf, f)
=============================================================================

SPECIFICATION Spec
CONSTANTS
  MaxObj = 3
  MaxOps = 5
  SaveDisturbs = FALSE
  Emit = TRUE
INVARIANT EmitDone
CHECK_DEADLOCK FALSE

SPECIFICATION Spec
CONSTANTS
  NTP = 4
  NW = 2
  Keys = {1, 2}
  MAXREB = 2
  Variant = "pure"
INVARIANT InputUnchanged
INVARIANT ScheduleIndependent
INVARIANT OwnDirectory
PROPERTY AllWritten
CHECK_DEADLOCK FALSE

SPECIFICATION GSpec
CONSTANTS
  Faults <- FaultsDef
  CaughtAt <- NoOverlapGuard
INVARIANT NoComputeOnInvalid
INVARIANT RejectedBeforeCompute
INVARIANT Examples
PROPERTY AcceptedRuns
PROPERTY InvalidStopped
CHECK_DEADLOCK FALSE

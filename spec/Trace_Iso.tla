------------------------------ MODULE Trace_Iso ------------------------------
(***************************************************************************)
(* Binding of Iso.tla to the real code.                                    *)
(*   Own    (one per assembly, before the sweep): identities of the mutable *)
(*          objects reachable from the assembly that were WRITTEN during a  *)
(*          probe sweep (materials, parameter dictionaries, arrays, ...)    *)
(*   Step   (one per Assembly.calculate): digests of the observable state   *)
(*          of every OTHER assembly before and after the call               *)
(* Clauses: no written object is reachable from two assemblies (one object *)
(* per assembly, the "per_assembly" sharing of Iso.tla); advancing one      *)
(* assembly leaves every other assembly's observable state untouched.       *)
(***************************************************************************)
EXTENDS Integers, Sequences, FiniteSets, Json, IOUtils, TLC
Traces == ndJsonDeserialize(IOEnv.TRACE_FILE)
VARIABLES tid, l, verdict, firstbad, done, owner
vars == <<tid, l, verdict, firstbad, done, owner>>
T == Traces[tid]
Ev == T.ev[l]
Init == tid \in 1..Len(Traces) /\ l = 1 /\ verdict = {} /\ firstbad = 0 /\ done = FALSE
        /\ owner = <<>>
Note(cl) == /\ verdict' = verdict \cup cl
            /\ firstbad' = IF cl # {} /\ firstbad = 0 THEN l ELSE firstbad
            /\ l' = l + 1 /\ UNCHANGED <<tid, done>>
Live(e) == ~done /\ l <= Len(T.ev) /\ Ev.e = e
Ids(o) == {o.ids[i] : i \in 1..Len(o.ids)}
TrOwn == /\ Live("Own")
         /\ owner' = [i \in DOMAIN owner \cup Ids(Ev) |->
                         IF i \in DOMAIN owner THEN owner[i] ELSE Ev.a]
         /\ Note(IF \A i \in Ids(Ev) : i \notin DOMAIN owner \/ owner[i] = Ev.a
                 THEN {} ELSE {"NoMutableStateSharedBetweenAssemblies"})
TrStep == /\ Live("Step") /\ UNCHANGED owner
          /\ Note(IF \A i \in 1..Len(Ev.before) : Ev.before[i] = Ev.after[i]
                  THEN {} ELSE {"AdvancingOneAssemblyLeavesOthersUntouched"})
TrCrash == Live("Crash") /\ UNCHANGED owner /\ Note({"SweepRuns"})
Report == /\ ~done /\ l > Len(T.ev)
          /\ PrintT(<<"VERDICT", tid, IF verdict = {} THEN "accept" ELSE "reject",
                      IF firstbad # 0 THEN firstbad ELSE l - 1, verdict>>)
          /\ done' = TRUE /\ UNCHANGED <<tid, l, verdict, firstbad, owner>>
Next == TrOwn \/ TrStep \/ TrCrash \/ Report
Spec == Init /\ [][Next]_vars
=============================================================================

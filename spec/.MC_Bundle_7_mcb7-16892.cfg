SPECIFICATION Spec
CONSTANTS MinN = 7
          MaxN = 7
          MaxND = 3
INVARIANT ThmCounts
INVARIANT ThmAdjSymmetric
INVARIANT ThmDegree
INVARIANT ThmPinFractions
INVARIANT ThmPinDegree
INVARIANT ThmEquivariant
INVARIANT ThmPinEquivariant
INVARIANT ThmSwirl
INVARIANT ThmSignatures
INVARIANT ThmLattice
CHECK_DEADLOCK FALSE

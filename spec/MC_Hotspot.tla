----------------------------- MODULE MC_Hotspot -----------------------------
EXTENDS Hotspot, TLC
F == {4, 5, 6}
Init == /\ dT \in [1..J -> 0..1]
        /\ d \in [1..J -> F]
        /\ g \in [1..2 -> [1..J -> F]]
Next == UNCHANGED hvars
Spec == Init /\ [][Next]_hvars
=============================================================================

SPECIFICATION Spec
CONSTANTS Asm = {1, 2, 3}
          TypeOf <- TypeOfDef
          Planes = 3
          Sharing = "per_type"
INVARIANT ReadOwn
INVARIANT Confluence
CHECK_DEADLOCK FALSE

----------------------------- MODULE MC_CoreGap -----------------------------
(* Every non-empty occupancy of the 7-position core x every assignment of   *)
(* NT mesh classes: one initial state per configuration; the theorems of    *)
(* CoreGap.tla are invariants.                                               *)
EXTENDS HexLattice, TLC, FiniteSets
CONSTANTS NT        \* number of mesh classes; class k has k-1 edge cells per side
VARIABLES occ, scps, pitch
G == INSTANCE CoreGap WITH Occ <- occ, Scps <- scps, Pitch <- pitch
Seven == Disk(1)
Init == /\ occ \in (SUBSET Seven) \ {{}}
        /\ scps = [p \in occ |-> 0] /\ pitch = [p \in occ |-> 0]
\* second level: assign mesh classes (worked on by TLC's workers in parallel)
Assign == /\ \A p \in occ : scps[p] = 0
          /\ scps' \in [occ -> 0..(NT - 1)]
          /\ pitch' = scps' /\ occ' = occ
Next == Assign
Spec == Init /\ [][Next]_<<occ, scps, pitch>>
Thm == G!AllTheorems
\* quick tier: occupancies of at most 5 positions
Small == Cardinality(occ) <= 4
=============================================================================

SPECIFICATION Spec
CONSTANTS MinN = 4
          MaxN = 4
          MaxND = 3
INVARIANT ThmCounts
INVARIANT ThmAdjSymmetric
INVARIANT ThmDegree
INVARIANT ThmPinFractions
INVARIANT ThmPinDegree
INVARIANT ThmEquivariant
INVARIANT ThmPinEquivariant
INVARIANT ThmSwirl
INVARIANT ThmSignatures
INVARIANT ThmLattice
CHECK_DEADLOCK FALSE

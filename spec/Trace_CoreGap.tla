---------------------------- MODULE Trace_CoreGap ----------------------------
(***************************************************************************)
(* Validation of the gap mesh the real Core builds (Core.load) against the *)
(* geometric definition of CoreGap.tla.  One trace = one core layout.      *)
(*   Walk  (one per assembly): the code's list of gap-cell ids around the   *)
(*         assembly, in its perimeter order, with the code's cell types;    *)
(*         must be the geometric perimeter walk; the id <-> geometric key   *)
(*         relation built from all walks must be a bijection                *)
(*   Cell  (one per global id): the code's global type and adjacency        *)
(*   Geom  quantised geometry: perimeter coverage, area, flow split         *)
(*   Seal  counts                                                           *)
(***************************************************************************)
EXTENDS HexLattice, Json, IOUtils, TLC
Traces == ndJsonDeserialize(IOEnv.TRACE_FILE)
VARIABLES tid, l, verdict, firstbad, done,
          key,        \* id -> geometric key established so far
          cells, pairs,  \* geometric cells and adjacency pairs of this layout
          occ, scps, pitch   \* the layout (constant along a trace)
vars == <<tid, l, verdict, firstbad, done, key, cells, pairs, occ, scps, pitch>>
T == Traces[tid]
Ev == T.ev[l]
ToPt(x) == <<x[1], x[2]>>
OccOf(t) == {ToPt(t.cfg.pos[i]) : i \in 1..Len(t.cfg.pos)}
ScpsOf(t) == [p \in OccOf(t) |-> t.cfg.scps[CHOOSE i \in 1..Len(t.cfg.pos) : ToPt(t.cfg.pos[i]) = p]]
PitchOf(t) == [p \in OccOf(t) |-> t.cfg.pitch[CHOOSE i \in 1..Len(t.cfg.pos) : ToPt(t.cfg.pos[i]) = p]]
G == INSTANCE CoreGap WITH Occ <- occ, Scps <- scps, Pitch <- pitch
G0(t) == INSTANCE CoreGap WITH Occ <- OccOf(t), Scps <- ScpsOf(t), Pitch <- PitchOf(t)
Close(x, y, tol) == x - y <= tol /\ y - x <= tol
Dom(f) == DOMAIN f

Init == /\ tid \in 1..Len(Traces)
        /\ l = 1 /\ verdict = {} /\ firstbad = 0 /\ done = FALSE
        /\ key = <<>>
        /\ occ = OccOf(Traces[tid]) /\ scps = ScpsOf(Traces[tid])
        /\ pitch = PitchOf(Traces[tid])
        /\ cells = G0(Traces[tid])!AllCells
        /\ pairs = G0(Traces[tid])!AdjPairs
Note(cl) == /\ verdict' = verdict \cup cl
            /\ firstbad' = IF cl # {} /\ firstbad = 0 THEN l ELSE firstbad
            /\ l' = l + 1 /\ UNCHANGED <<tid, done, cells, pairs, occ, scps, pitch>>
Live(e) == ~done /\ l <= Len(T.ev) /\ Ev.e = e

\* ---- Walk -----------------------------------------------------------------
WalkClauses(o, w) ==
  (IF Len(o.ids) = Len(w) THEN {} ELSE {"PerimeterCoveredExactlyOnce"})
  \cup (IF Len(o.ids) = Len(w) /\ \A i \in 1..Len(w) : o.types[i] = w[i][1]
        THEN {} ELSE {"CellTypeMatchesGeometry"})
  \cup (IF Len(o.ids) = Len(w)
           /\ \A i \in 1..Len(w) : o.ids[i] \in Dom(key) => key[o.ids[i]] = w[i]
        THEN {} ELSE {"SharedCellSeenIdentically"})
  \cup (IF Len(o.ids) = Len(w)
           /\ \A i \in 1..Len(w) : \A j \in Dom(key) : key[j] = w[i] => j = o.ids[i]
        THEN {} ELSE {"CellCountedOnce"})
  \cup (IF Len(o.ids) = Len(w) /\ \A i, j \in 1..Len(w) : i # j => o.ids[i] # o.ids[j]
        THEN {} ELSE {"PerimeterCoveredExactlyOnce"})
  \cup (IF \A s \in 1..6 : o.scps[s] = G!SegCells(ToPt(o.p), Add(ToPt(o.p), G!CDir(s - 1)))
        THEN {} ELSE {"FinerMeshChosenPerSide"})
TrWalk == /\ Live("Walk")
          /\ LET w == G!Perimeter(ToPt(Ev.p)) IN
             /\ key' = IF Len(Ev.ids) = Len(w)
                       THEN [j \in Dom(key) \cup {Ev.ids[i] : i \in 1..Len(w)} |->
                               IF j \in Dom(key) THEN key[j]
                               ELSE w[CHOOSE i \in 1..Len(w) : Ev.ids[i] = j]]
                       ELSE key
             /\ Note(WalkClauses(Ev, w))
\* ---- Cell -----------------------------------------------------------------
CellClauses(o) ==
  IF o.id \notin Dom(key) THEN {"EveryCellTouchesAnAssembly"}
  ELSE LET c == key[o.id] IN
    (IF o.typ = c[1] THEN {} ELSE {"CellTypeMatchesGeometry"})
    \cup (IF \A i \in 1..Len(o.adj) : o.adj[i] \in Dom(key) THEN {} ELSE {"AdjacencyMatchesGeometry"})
    \cup (IF (\A i \in 1..Len(o.adj) : o.adj[i] \in Dom(key))
             /\ {key[o.adj[i]] : i \in 1..Len(o.adj)} = G!GapAdjIn(c, cells, pairs)
          THEN {} ELSE {"AdjacencyMatchesGeometry"})
    \cup (IF o.nb \in 1..3 /\ o.nb = Cardinality({p \in occ : c \in G!CellsOf(p)})
          THEN {} ELSE {"BordersOneToThreeAssemblies"})
TrCell == Live("Cell") /\ key' = key /\ Note(CellClauses(Ev))
\* ---- Geom -----------------------------------------------------------------
GeomClauses(o) ==
  (IF \A a \in 1..Len(o.perim) : Close(o.perim[a][1], o.perim[a][2], o.tol)
   THEN {} ELSE {"CellsCoverDuctPerimeter"})
  \cup (IF Close(o.area, o.areaRef, o.tol) THEN {} ELSE {"TotalAreaIndependentOfMeshes"})
  \cup (IF \A i \in 1..Len(o.split) : Close(o.split[i][1], o.split[i][2], o.tol)
        THEN {} ELSE {"FlowSplitInProportionToArea"})
  \cup (IF o.positive = 1 THEN {} ELSE {"GeometryPositive"})
  \cup (IF o.xb = 1 THEN {} ELSE {"CellBoundariesIncreaseAlongPerimeter"})
  \cup (IF o.lsym = 1 THEN {} ELSE {"CentroidDistancesSymmetric"})
  \cup (IF o.sharedOK = 1 THEN {} ELSE {"SharedCellHasTheFinerWidthFromEverySide"})
TrGeom == Live("Geom") /\ key' = key /\ Note(GeomClauses(Ev))
TrSeal == Live("Seal") /\ key' = key /\
          Note((IF Ev.nsc = Cardinality(cells) /\ Cardinality(Dom(key)) = Ev.nsc
                   /\ Dom(key) = 1..Ev.nsc
                THEN {} ELSE {"CellCountMatchesGeometry"}))
TrFail == Live("BuildFailed") /\ key' = key /\ Note({"CoreCanBeLoaded"})
Report == /\ ~done /\ l > Len(T.ev)
          /\ PrintT(<<"VERDICT", tid, IF verdict = {} THEN "accept" ELSE "reject",
                      IF firstbad # 0 THEN firstbad ELSE l - 1, verdict>>)
          /\ done' = TRUE /\ UNCHANGED <<tid, l, verdict, firstbad, key, cells, pairs, occ, scps, pitch>>
Next == TrWalk \/ TrCell \/ TrGeom \/ TrSeal \/ TrFail \/ Report
Spec == Init /\ [][Next]_vars
=============================================================================

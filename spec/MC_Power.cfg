SPECIFICATION Spec
CONSTANTS L = 6
          Scheme = "whole_cell"
          Require = "aligned_or_flat"
INVARIANT Thm
CHECK_DEADLOCK FALSE

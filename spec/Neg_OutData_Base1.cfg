SPECIFICATION Spec
CONSTANTS
  LEN = 5
  MAXDZ = 2
  NASM = 2
  Vals = {1, 3}
  Intv = 0
  Lookup = "base1"
INVARIANT TablesInterpolatePlaneData
INVARIANT OutletDumped
INVARIANT OneRowPerAssemblyAndPlane
PROPERTY Finishes
CHECK_DEADLOCK FALSE

-------------------------------- MODULE Units --------------------------------
(***************************************************************************)
(* Unit systems of the input (C17).                                         *)
(*                                                                          *)
(* Part 1 - exact unit algebra on integer quanta.  The harness logs a user  *)
(* value in quanta of its own unit and the internal value in SI quanta:     *)
(*   length       SI 1e-8 m;  m 1e-8, cm 1e-6, mm 1e-5, in 1e-6, ft 1e-7    *)
(*   temperature  1e-5 degree in every scale                                *)
(*   flow         SI 1e-7 kg/s; the time unit is absorbed in the user       *)
(*                quantum (per s 1e-7, per min 6e-6, per hr 3.6e-4), the    *)
(*                mass unit is converted here                                *)
(* Part 2 - the conversion pipeline of the reader: every dimensional key    *)
(* carries the number of unit factors still to be removed (1 as written in  *)
(* a non-default unit, 0 in SI).  The reader runs one conversion pass per   *)
(* dimension whose unit is not the default; a pass visits keys section by   *)
(* section and assignment entries position by position.                     *)
(***************************************************************************)
EXTENDS Integers, Sequences, FiniteSets, TLC

\* floor(x * a / b) for x >= 0 without leaving 32 bits
MulDiv(x, a, b) == (x \div b) * a + ((x % b) * a) \div b
SMulDiv(x, a, b) == IF x >= 0 THEN MulDiv(x, a, b) ELSE 0 - MulDiv(0 - x, a, b)

LenToSI(u, x) == CASE u = "in" -> MulDiv(x, 254, 100)
                   [] u = "ft" -> MulDiv(x, 3048, 1000)
                   [] OTHER -> x                       \* m, cm, mm: same quantum
LenFromSI(u, x) == CASE u = "in" -> MulDiv(x, 100, 254)
                     [] u = "ft" -> MulDiv(x, 1000, 3048)
                     [] OTHER -> x
TempToSI(u, x) == CASE u = "c" -> x + 27315000
                    [] u = "f" -> SMulDiv(x - 3200000, 5, 9) + 27315000
                    [] OTHER -> x
TempFromSI(u, x) == CASE u = "c" -> x - 27315000
                      [] u = "f" -> SMulDiv(x - 27315000, 9, 5) + 3200000
                      [] OTHER -> x
DeltaToSI(u, x) == IF u = "f" THEN SMulDiv(x, 5, 9) ELSE x
\* 0.453592 = 453/1000 + 592/1000000
FlowToSI(mu, x) == IF mu = "lb" THEN MulDiv(x, 453, 1000) + MulDiv(x, 592, 1000000) ELSE x
ToSI(dim, lu, tu, mu, x) ==
  CASE dim = "L" -> LenToSI(lu, x) [] dim = "T" -> TempToSI(tu, x)
    [] dim = "dT" -> DeltaToSI(tu, x) [] dim = "F" -> FlowToSI(mu, x)
IsDefault(dim, lu, tu, mu, tmu) ==
  CASE dim = "L" -> lu = "m" [] dim \in {"T", "dT"} -> tu = "k"
    [] dim = "F" -> mu = "kg" /\ tmu = "s"
Close(x, y, tol) == x - y <= tol /\ y - x <= tol

\* ---- part 2: the pipeline ---------------------------------------------------
CONSTANTS KeysL, KeysT,     \* scalar keys with a length / temperature
          NPos,             \* assignment positions (each has one flow value)
          LenUnits, TempUnits, MassUnits, TimeUnits,
          Variant           \* "reader" | "forgets" | "aliased" | "refuses"
VARIABLES lu, tu, mu, tmu,  \* chosen units
          pend,             \* [key -> pending factors]
          obj,              \* [position -> object holding its keyword values]
          fpend,            \* [object -> pending factors of its flow value]
          pc, outcome
vars == <<lu, tu, mu, tmu, pend, obj, fpend, pc, outcome>>
Pos == 1..NPos
Forgotten == CHOOSE k \in KeysL : TRUE
Init ==
  /\ lu \in LenUnits /\ tu \in TempUnits /\ mu \in MassUnits /\ tmu \in TimeUnits
  /\ pend = [k \in KeysL \cup KeysT |->
               IF k \in KeysL THEN (IF lu = "m" THEN 0 ELSE 1)
               ELSE (IF tu = "k" THEN 0 ELSE 1)]
  \* a position range "a = 2, 1, 3, flowrate=x" gives every position of the
  \* range its own copy of the keyword values (aliased: one shared object)
  /\ obj = IF Variant = "aliased" THEN [p \in Pos |-> 1] ELSE [p \in Pos |-> p]
  /\ fpend = [o \in Pos |-> IF mu = "kg" /\ tmu = "s" THEN 0 ELSE 1]
  /\ pc = "temperature" /\ outcome = "run"
PassT == /\ pc = "temperature"
         /\ pend' = IF tu = "k" THEN pend
                    ELSE [k \in DOMAIN pend |-> IF k \in KeysT THEN pend[k] - 1 ELSE pend[k]]
         /\ pc' = "length" /\ UNCHANGED <<lu, tu, mu, tmu, obj, fpend, outcome>>
PassL == /\ pc = "length"
         /\ pend' = IF lu = "m" THEN pend
                    ELSE [k \in DOMAIN pend |->
                            IF k \in KeysL /\ ~(Variant = "forgets" /\ k = Forgotten)
                            THEN pend[k] - 1 ELSE pend[k]]
         /\ pc' = "flow" /\ UNCHANGED <<lu, tu, mu, tmu, obj, fpend, outcome>>
\* the flow pass visits positions one by one and converts the value held by
\* the position's object; the pre-fix reader refused kg/min, kg/hr, lb/s
RECURSIVE Visit(_, _)
Visit(f, p) == IF p > NPos THEN f ELSE Visit([f EXCEPT ![obj[p]] = @ - 1], p + 1)
PassF == /\ pc = "flow"
         /\ IF mu = "kg" /\ tmu = "s" THEN fpend' = fpend /\ outcome' = "ok"
            ELSE IF Variant = "refuses" /\ (mu = "kg" \/ tmu = "s")
                 THEN fpend' = fpend /\ outcome' = "error"
                 ELSE fpend' = Visit(fpend, 1) /\ outcome' = "ok"
         /\ pc' = "done" /\ UNCHANGED <<lu, tu, mu, tmu, obj, pend>>
Next == PassT \/ PassL \/ PassF
Spec == Init /\ [][Next]_vars /\ WF_vars(Next)
\* every dimensional value ends in SI: each converted exactly once
AllInSI == pc = "done" /\ outcome = "ok" =>
             /\ \A k \in DOMAIN pend : pend[k] = 0
             /\ \A p \in Pos : fpend[obj[p]] = 0
EveryUnitSystemAccepted == pc = "done" => outcome = "ok"
Finishes == <>(pc = "done")
\* ---- theorems of part 1, checked on a grid of values ---------------------------
Grid == {0, 1, 7, 100, 2540, 30480, 123457, 5000000, 40000000}
RoundTrip ==
  /\ \A u \in {"m", "cm", "mm", "in", "ft"} : \A x \in Grid :
        Close(LenToSI(u, LenFromSI(u, x)), x, 4)
  /\ \A u \in {"k", "c", "f"} : \A x \in Grid :
        Close(TempToSI(u, TempFromSI(u, x + 20000000)), x + 20000000, 3)
  /\ LenToSI("in", 1000000) = 2540000 /\ LenToSI("ft", 10000000) = 30480000
  /\ TempToSI("f", 3200000) = 27315000 /\ TempToSI("f", 21200000) = 37315000
  /\ TempToSI("c", 0) = 27315000 /\ DeltaToSI("f", 900000) = 500000
  /\ FlowToSI("lb", 1000000) = 453592
=============================================================================

SPECIFICATION Spec
CONSTANTS NT = 2
INVARIANT Thm
CHECK_DEADLOCK FALSE

SPECIFICATION GSpec
CONSTANTS
  Faults <- FaultsDef
  CaughtAt <- Reader
INVARIANT NoComputeOnInvalid
INVARIANT RejectedBeforeCompute
INVARIANT Examples
PROPERTY AcceptedRuns
PROPERTY InvalidStopped
CHECK_DEADLOCK FALSE

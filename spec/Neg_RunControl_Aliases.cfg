SPECIFICATION Spec
CONSTANTS
  NTP = 3
  NW = 0
  Keys = {1, 2}
  MAXREB = 2
  Variant = "aliases"
INVARIANT ScheduleIndependent
CHECK_DEADLOCK FALSE

SPECIFICATION Spec
CONSTANTS
  KeysL = {"length", "pin_pitch", "epsilon", "axial_plane"}
  KeysT = {"coolant_inlet_temp", "outlet_temp"}
  NPos = 3
  LenUnits = {"m", "cm", "mm", "in", "ft"}
  TempUnits = {"k", "c", "f"}
  MassUnits = {"kg", "lb"}
  TimeUnits = {"s", "min", "hr"}
  Variant = "reader"
INVARIANT AllInSI
INVARIANT EveryUnitSystemAccepted
INVARIANT RoundTrip
PROPERTY Finishes
CHECK_DEADLOCK FALSE

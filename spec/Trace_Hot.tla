------------------------------ MODULE Trace_Hot ------------------------------
(* Replay of generated and built-in subfactor tables through the real      *)
(* hotspot pipeline (table reader, clad split, expression evaluation,       *)
(* calculate_temps) and of hotspot.analyze on swept reactors.               *)
(* Temperatures in quanta of 2^-18 K.  One trace = one table x temperature  *)
(* set; Hot events differ in (IN, OUT) sigma.                               *)
EXTENDS Integers, Sequences, FiniteSets, Json, IOUtils, TLC
Traces == ndJsonDeserialize(IOEnv.TRACE_FILE)
VARIABLES tid, l, verdict, firstbad, done, seen
vars == <<tid, l, verdict, firstbad, done, seen>>
T == Traces[tid]
Ev == T.ev[l]
Close(x, y, tol) == x - y <= tol /\ y - x <= tol
Init == tid \in 1..Len(Traces) /\ l = 1 /\ verdict = {} /\ firstbad = 0 /\ done = FALSE
        /\ seen = <<>>
Note(cl) == /\ verdict' = verdict \cup cl
            /\ firstbad' = IF cl # {} /\ firstbad = 0 THEN l ELSE firstbad
            /\ l' = l + 1 /\ UNCHANGED <<tid, done>>
Live(e) == ~done /\ l <= Len(T.ev) /\ Ev.e = e
N(o) == Len(o.hot)
HotClauses(o) ==
  (IF o.unity = 0 \/ \A j \in 1..N(o) : Close(o.hot[j], o.nom[j], o.tol) THEN {} ELSE {"UnitySubfactorsGiveNominal"})
  \cup (IF o.ge1 = 0 \/ \A j \in 1..N(o) : o.hot[j] >= o.nom[j] - o.tol THEN {} ELSE {"NeverBelowNominal"})
  \cup (IF o.out # 0 \/ \A j \in 1..N(o) : Close(o.hot[j], o.zero[j], o.tol) THEN {} ELSE {"ZeroSigmaIsDirectProduct"})
  \cup (IF o.ge1 = 0 \/ \A j \in 1..(N(o) - 1) : o.hot[j] <= o.hot[j + 1] + o.tol THEN {} ELSE {"SequenceIsCumulative"})
  \* each entry adds its own temperature rise only: it is the hot spot of
  \* the rises up to and including its own (o.own: the same table evaluated
  \* with the later rises left out)
  \cup (IF \A j \in 1..N(o) : Close(o.hot[j], o.own[j], o.tol) THEN {} ELSE {"EntryDependsOnlyOnRisesUpToItsOwn"})
  \* the value is the method of Hotspot.tla applied to the table as written
  \* (o.want: every cell evaluated with the rise of its own column)
  \cup (IF \A j \in 1..N(o) : Close(o.hot[j], o.want[j], 2 * o.tol) THEN {} ELSE {"HotSpotFollowsTheStatedTable"})
\* against earlier events of the same table: the statistical part
\* (hot - zero) is proportional to OUT / IN
PairClauses(o) ==
  IF \A i \in 1..Len(seen) : \A j \in 1..N(o) :
        Close((o.hot[j] - o.zero[j]) * o.inn * seen[i].out,
              (seen[i].hot[j] - seen[i].zero[j]) * seen[i].inn * o.out,
              o.ptol)
  THEN {} ELSE {"StatisticalPartScalesWithOutOverIn"}
TrHot == /\ Live("Hot") /\ seen' = Append(seen, Ev)
         /\ Note(HotClauses(Ev) \cup PairClauses(Ev))
\* hotspot.analyze on a swept reactor with unity subfactors: the value
\* reported for an assembly id is that assembly's own nominal peak, built
\* from the radial profile stored at the nominal peak
TrAnalyze == /\ Live("Analyze") /\ UNCHANGED seen
             /\ Note((IF \A a \in 1..Len(Ev.hot) : Close(Ev.hot[a], Ev.peak[a], Ev.tol)
                      THEN {} ELSE {"HotSpotOfEachAssemblyUsesItsOwnPeakPin"})
                     \cup (IF Ev.ids = 1 THEN {} ELSE {"EveryRequestedAssemblyReported"}))
TrCrash == Live("Crash") /\ UNCHANGED seen /\ Note({"NoUnhandledException"})
Report == /\ ~done /\ l > Len(T.ev)
          /\ PrintT(<<"VERDICT", tid, IF verdict = {} THEN "accept" ELSE "reject",
                      IF firstbad # 0 THEN firstbad ELSE l - 1, verdict>>)
          /\ done' = TRUE /\ UNCHANGED <<tid, l, verdict, firstbad, seen>>
Next == TrHot \/ TrAnalyze \/ TrCrash \/ Report
Spec == Init /\ [][Next]_vars
=============================================================================

------------------------------ MODULE Trace_Data ------------------------------
(* Requested assembly data tables of real runs against OutData.tla.           *)
(* Plane events: digests of the field of the requested assembly at the dumped *)
(* planes that enclose the requested height (the last dumped plane below it   *)
(* and the first at or above it), sampled during the sweep from the state the *)
(* dump row is written from.  Table events: the same digests of the column    *)
(* found in the table file after post-processing.  TLC interpolates.          *)
(* Temperatures in quanta of 2^-18 K (sums 2^-10, 2^-7); heights in ticks of  *)
(* 1e-7 m; interpolation weight in 1/1024.                                    *)
EXTENDS Integers, Sequences, FiniteSets, Json, IOUtils, TLC
Traces == ndJsonDeserialize(IOEnv.TRACE_FILE)
VARIABLES tid, l, verdict, firstbad, done, hist
vars == <<tid, l, verdict, firstbad, done, hist>>
T == Traces[tid]
Ev == T.ev[l]
Init == tid \in 1..Len(Traces) /\ l = 1 /\ verdict = {} /\ firstbad = 0 /\ done = FALSE
        /\ hist = {}
Note(cl) == /\ verdict' = verdict \cup cl
            /\ firstbad' = IF cl # {} /\ firstbad = 0 THEN l ELSE firstbad
            /\ l' = l + 1 /\ UNCHANGED <<tid, done>>
Live(e) == ~done /\ l <= Len(T.ev) /\ Ev.e = e
Cl(ok, name) == IF ok THEN {} ELSE {name}
Abs(x) == IF x < 0 THEN 0 - x ELSE x
Close(x, y, tol) == x - y <= tol /\ y - x <= tol
MulDiv(x, a, b) == (x \div b) * a + ((x % b) * a) \div b
SMulDiv(x, a, b) == IF x >= 0 THEN MulDiv(x, a, b) ELSE 0 - MulDiv(0 - x, a, b)
TrPlane == /\ Live("Plane") /\ hist' = hist \cup {Ev}
           /\ Note(Cl(\A h \in hist : ~(h.q = Ev.q /\ h.kind = Ev.kind /\ h.z = Ev.z),
                      "OnePlanePerHeight"))
\* x (from the table) is the interpolation of a (lower plane) and b (upper
\* plane) with weight w/1024 on b; slack: the weight's resolution + tol
Interp(x, a, b, w, tol) == Close(x - a, SMulDiv(b - a, w, 1024), Abs(b - a) \div 256 + tol)
Tol(i, n) == IF i <= 3 THEN 2 ELSE IF i = 4 THEN n + 4 ELSE 7 * n + 4
TrTable ==
  /\ Live("Table") /\ UNCHANGED hist
  /\ LET cand == {h \in hist : h.q = Ev.q /\ h.kind = Ev.kind}
         encl == cand # {} /\ (\E h \in cand : h.z <= Ev.z + 1) /\ (\E h \in cand : h.z >= Ev.z - 1)
     IN IF ~encl THEN Note({"RequestedHeightEnclosedByDumpedPlanes"}
                           \cup Cl(Ev.named = 1, "FileNamedAfterAssemblyAndDuct"))
        ELSE LET lo == CHOOSE h \in cand : \A g \in cand : h.z <= g.z
                 hi == CHOOSE h \in cand : \A g \in cand : g.z <= h.z
                 w == IF hi.z = lo.z THEN 0
                      ELSE ((Ev.z - lo.z) * 1024) \div (hi.z - lo.z)
             IN Note(Cl(lo.n = Ev.n /\ hi.n = Ev.n /\
                        \A i \in 1..5 : Interp(Ev.v[i], lo.v[i], hi.v[i], w, Tol(i, Ev.n)),
                        "TableInterpolatesPlaneData")
                     \cup Cl(Interp(Ev.avg, lo.avg, hi.avg, w, 2), "TableAverageInterpolatesPlaneAverage")
                     \cup Cl(Ev.named = 1, "FileNamedAfterAssemblyAndDuct"))
TrMissing == Live("Missing") /\ UNCHANGED hist /\ Note({"EveryRequestAnswered"})
TrCrash == Live("Crash") /\ UNCHANGED hist /\ Note({"RunCompletes"})
Report == /\ ~done /\ l > Len(T.ev)
          /\ PrintT(<<"VERDICT", tid, IF verdict = {} THEN "accept" ELSE "reject",
                      IF firstbad # 0 THEN firstbad ELSE l - 1, verdict>>)
          /\ done' = TRUE /\ UNCHANGED <<tid, l, verdict, firstbad, hist>>
Next == TrPlane \/ TrTable \/ TrMissing \/ TrCrash \/ Report
Spec == Init /\ [][Next]_vars
=============================================================================

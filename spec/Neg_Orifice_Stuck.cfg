SPECIFICATION Spec
CONSTANTS
  NA = 4
  PMAX = 4
  CUTS = {10, 50, 400}
  DELTAS = {1, 30}
  SC = 1000
  ITMAX = 40
  TYPES = {1}
  LIMS = {0}
  MT = 48
  FACT <- FactDef
  DMAX = 0
  Rule = "stuck"
INVARIANT TypeOK
INVARIANT Partition
INVARIANT Ordered
INVARIANT AsSwept
PROPERTY GroupingEnds
CHECK_DEADLOCK FALSE

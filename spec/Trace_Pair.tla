----------------------------- MODULE Trace_Pair -----------------------------
(***************************************************************************)
(* Relations between two runs of the solver (hyperproperties by            *)
(* self-composition).  A trace zips two executions; each Cmp event carries *)
(* two integer vectors a (run 1) and b (run 2), already aligned by the     *)
(* harness with the permutation / identification the specification         *)
(* prescribes, and the relation demanded between them:                     *)
(*      den * b[i] = num * a[i]   within tol   (num = den = 1: identity)   *)
(* The clause reported on failure is the event's own name (what).          *)
(***************************************************************************)
EXTENDS Integers, Sequences, FiniteSets, Json, IOUtils, TLC
Traces == ndJsonDeserialize(IOEnv.TRACE_FILE)
VARIABLES tid, l, verdict, firstbad, done
vars == <<tid, l, verdict, firstbad, done>>
T == Traces[tid]
Ev == T.ev[l]
Close(x, y, tol) == x - y <= tol /\ y - x <= tol
Init == tid \in 1..Len(Traces) /\ l = 1 /\ verdict = {} /\ firstbad = 0 /\ done = FALSE
Holds(o) == /\ Len(o.a) = Len(o.b)
            /\ \A i \in 1..Len(o.a) : Close(o.den * o.b[i], o.num * o.a[i], o.tol)
\* bitwise identity of two runs is reported by the harness as digests
Same(o) == o.a = o.b
TrCmp == /\ ~done /\ l <= Len(T.ev) /\ Ev.e = "Cmp"
         /\ verdict' = IF Holds(Ev) THEN verdict ELSE verdict \cup {Ev.what}
         /\ firstbad' = IF ~Holds(Ev) /\ firstbad = 0 THEN l ELSE firstbad
         /\ l' = l + 1 /\ UNCHANGED <<tid, done>>
TrSame == /\ ~done /\ l <= Len(T.ev) /\ Ev.e = "Same"
          /\ verdict' = IF Same(Ev) THEN verdict ELSE verdict \cup {Ev.what}
          /\ firstbad' = IF ~Same(Ev) /\ firstbad = 0 THEN l ELSE firstbad
          /\ l' = l + 1 /\ UNCHANGED <<tid, done>>
\* a run of the pair failed to complete
TrCrash == /\ ~done /\ l <= Len(T.ev) /\ Ev.e = "Crash"
           /\ verdict' = verdict \cup {"BothRunsComplete"}
           /\ firstbad' = IF firstbad = 0 THEN l ELSE firstbad
           /\ l' = l + 1 /\ UNCHANGED <<tid, done>>
Report == /\ ~done /\ l > Len(T.ev)
          /\ PrintT(<<"VERDICT", tid, IF verdict = {} THEN "accept" ELSE "reject",
                      IF firstbad # 0 THEN firstbad ELSE l - 1, verdict>>)
          /\ done' = TRUE /\ UNCHANGED <<tid, l, verdict, firstbad>>
Next == TrCmp \/ TrSame \/ TrCrash \/ Report
Spec == Init /\ [][Next]_vars
=============================================================================

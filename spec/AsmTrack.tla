------------------------------ MODULE AsmTrack ------------------------------
(***************************************************************************)
(* Per-assembly accumulators of the march that are folds over the step     *)
(* history: pressure drop (friction, spacer grid, gravity; C14) and running *)
(* peak temperatures with their heights (C15).                             *)
(*                                                                         *)
(* Axial positions are exact integers in picometres carried as two limbs   *)
(* <<hi, lo>> base 10^6 (TLC integers are 32 bit).  A spacer grid at g is   *)
(* charged to the step (zlo, zhi] that contains it - half open, so a grid   *)
(* lying on a plane is charged exactly once - and only inside the bundle.   *)
(* Grid losses (dS, lossQ) are logged in TOTAL pressure quanta, friction    *)
(* and gravity increments in step quanta (RP per total quantum).            *)
(***************************************************************************)
EXTENDS Integers, Sequences, FiniteSets
CONSTANTS TolP,      \* allowance on pressure relations (pressure quanta)
          RP,        \* step pressure quanta per total pressure quantum
          Interval   \* "half_open" (specified) | "open" (never charges a grid on a plane)

VARIABLES nasm, grids,       \* grids[a]: sequence of limb pairs
          F, S, G,           \* per-assembly totals of the three parts (total quanta)
          hits,              \* hits[a][g]: times grid g was charged
          pkC, pkD, pkP      \* running peaks: <<value, height limbs>> (per slot / key)
tvars == <<nasm, grids, F, S, G, hits, pkC, pkD, pkP>>

Close(x, y, tol) == x - y <= tol /\ y - x <= tol
Lt(x, y) == x[1] < y[1] \/ (x[1] = y[1] /\ x[2] < y[2])
Le(x, y) == x = y \/ Lt(x, y)
InStep(g, zlo, zhi) == IF Interval = "half_open" THEN Lt(zlo, g) /\ Le(g, zhi)
                       ELSE Lt(zlo, g) /\ Lt(g, zhi)
Asm == 1..nasm
NoPeak == <<0, <<0, 0>>>>

TInit(n, gr, nslots, npin) ==
  /\ nasm = n /\ grids = gr
  /\ F = [a \in 1..n |-> 0] /\ S = [a \in 1..n |-> 0] /\ G = [a \in 1..n |-> 0]
  /\ hits = [a \in 1..n |-> [g \in 1..Len(gr[a]) |-> 0]]
  /\ pkC = [a \in 1..n |-> NoPeak]
  /\ pkD = [a \in 1..n |-> [s \in 1..nslots[a] |-> NoPeak]]
  /\ pkP = [a \in 1..n |-> [p \in 1..npin[a] |-> NoPeak]]

----------------------------------------------------------------------------
\* C14
GridsHit(o) == {g \in 1..Len(grids[o.a]) : o.rod = 1 /\ InStep(grids[o.a][g], o.zlo, o.zhi)}
Advance(old, new, inc) == Close(new - old, inc \div RP, 2)
PressureClauses(o) ==
  (IF o.dF >= 0 /\ o.dS >= 0 /\ o.dG >= 0 THEN {} ELSE {"PressurePartsNonNegative"})
  \cup (IF o.exact = 0 \/ Close(o.dF, o.cF, TolP) THEN {} ELSE {"FrictionClosedForm"})
  \cup (IF o.exact = 0 \/ Close(o.dG, o.cG, TolP) THEN {} ELSE {"GravityClosedForm"})
  \cup (IF o.exact = 0 \/ Close(o.dS, Cardinality(GridsHit(o)) * o.lossQ, TolP)
        THEN {} ELSE {"OneLossPerSpacerGridInStep"})
  \cup (IF Advance(F[o.a], o.FTot, o.dF) /\ Close(o.STot - S[o.a], o.dS, 2)
           /\ Advance(G[o.a], o.GTot, o.dG) THEN {} ELSE {"PressureLedgerAdvance"})
  \cup (IF Close(o.PTot, o.FTot + o.STot + o.GTot, TolP) THEN {} ELSE {"TotalIsSumOfPartsAndRegions"})
  \* the step was advanced by the region whose bounds contain it
  \cup (IF o.inreg = 1 THEN {} ELSE {"ActiveRegionContainsTheStep"})
PressureUpdate(o) ==
  /\ F' = [F EXCEPT ![o.a] = o.FTot] /\ S' = [S EXCEPT ![o.a] = o.STot]
  /\ G' = [G EXCEPT ![o.a] = o.GTot]
  /\ hits' = [hits EXCEPT ![o.a] = [g \in 1..Len(grids[o.a]) |->
                 IF g \in GridsHit(o) THEN @[g] + 1 ELSE @[g]]]
\* at the end of the sweep: every grid inside the bundle was charged once
GridOnce(a, blo, bhi) ==
  \A g \in 1..Len(grids[a]) :
     IF Lt(blo, grids[a][g]) /\ Le(grids[a][g], bhi) THEN hits[a][g] = 1 ELSE hits[a][g] = 0

----------------------------------------------------------------------------
\* C15: running maxima.  o.*gt = 1 iff the field maximum of this plane is
\* strictly above everything seen before (compared in full precision by the
\* recorder); values are quantised monotonically.
Fold(pk, mx, gt, z) == IF gt = 1 THEN <<mx, z>> ELSE pk
FoldOK(pk, mx, gt) == IF gt = 1 THEN mx >= pk[1] ELSE mx <= pk[1]
SlotOf(nslots, nd, d) == nslots - nd + d       \* ducts aligned outermost
PeakClauses(o) ==
  LET a == o.a  ns == Len(pkD[a]) IN
  (IF FoldOK(pkC[a], o.cmax, o.cgt) THEN {} ELSE {"PeakFoldConsistent"})
  \cup (IF o.codeC = Fold(pkC[a], o.cmax, o.cgt, o.zhi) THEN {} ELSE {"PeakCoolantIsRunningMaximum"})
  \cup (IF Len(o.codeD) = ns /\ o.nd <= ns
           /\ \A s \in 1..ns :
                IF s > ns - o.nd
                THEN o.codeD[s] = Fold(pkD[a][s], o.dmax[s - (ns - o.nd)][1], o.dmax[s - (ns - o.nd)][2], o.zhi)
                ELSE o.codeD[s] = pkD[a][s]
        THEN {} ELSE {"PeakDuctIsRunningMaximumPerDuct"})
  \cup (IF Len(o.pmax) = Len(pkP[a])
           /\ \A p \in 1..Len(o.pmax) :
                o.codeP[p] = Fold(pkP[a][p], o.pmax[p][1], o.pmax[p][2], o.zhi)
        THEN {} ELSE {"PeakPinIsRunningMaximum"})
  \cup (IF o.profOK = 1 THEN {} ELSE {"PeakPinProfileIsThatOfPeakPin"})
PeakUpdate(o) ==
  LET a == o.a  ns == Len(pkD[a]) IN
  /\ pkC' = [pkC EXCEPT ![a] = Fold(@, o.cmax, o.cgt, o.zhi)]
  /\ pkD' = [pkD EXCEPT ![a] = [s \in 1..ns |->
               IF s > ns - o.nd /\ o.nd <= ns
               THEN Fold(@[s], o.dmax[s - (ns - o.nd)][1], o.dmax[s - (ns - o.nd)][2], o.zhi)
               ELSE @[s]]]
  /\ pkP' = [pkP EXCEPT ![a] = [p \in 1..Len(@) |->
               IF p <= Len(o.pmax) THEN Fold(@[p], o.pmax[p][1], o.pmax[p][2], o.zhi) ELSE @[p]]]
=============================================================================

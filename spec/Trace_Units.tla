----------------------------- MODULE Trace_Units -----------------------------
(* One physical problem written in a unit system, parsed by the real reader: *)
(* every dimensional leaf of DASSH_Input.data is compared with what the unit *)
(* algebra of Units.tla makes of the value written in the file (usr), and    *)
(* with the SI original (si).  Scalar events exercise the converter          *)
(* functions of dassh/utils.py there and back.  Run events compare meshes    *)
(* and temperatures of sweeps.                                               *)
EXTENDS Integers, Sequences, FiniteSets, Json, IOUtils, TLC
CONSTANTS KeysL, KeysT, NPos, LenUnits, TempUnits, MassUnits, TimeUnits, Variant
VARIABLES lu, tu, mu, tmu, pend, obj, fpend, pc, outcome
U == INSTANCE Units
Traces == ndJsonDeserialize(IOEnv.TRACE_FILE)
VARIABLES tid, l, verdict, firstbad, done
tvars == <<tid, l, verdict, firstbad, done>>
T == Traces[tid]
Ev == T.ev[l]
Init == /\ tid \in 1..Len(Traces) /\ l = 1 /\ verdict = {} /\ firstbad = 0 /\ done = FALSE
        /\ lu = "m" /\ tu = "k" /\ mu = "kg" /\ tmu = "s" /\ pend = <<>> /\ obj = <<>>
        /\ fpend = <<>> /\ pc = "trace" /\ outcome = "run"
Frozen == UNCHANGED <<lu, tu, mu, tmu, pend, obj, fpend, pc, outcome>>
Note(cl) == /\ verdict' = verdict \cup cl
            /\ firstbad' = IF cl # {} /\ firstbad = 0 THEN l ELSE firstbad
            /\ l' = l + 1 /\ UNCHANGED <<tid, done>> /\ Frozen
Live(e) == ~done /\ l <= Len(T.ev) /\ Ev.e = e
Cl(ok, name) == IF ok THEN {} ELSE {name}
Tol(dim) == IF dim = "F" THEN 6 ELSE 4
TrLeaf ==
  /\ Live("Leaf")
  /\ LET want == U!ToSI(Ev.dim, T.lu, T.tu, T.mu, Ev.usr)
         tol == Tol(Ev.dim) + Ev.si \div 50000000 IN
     Note(Cl(U!Close(Ev.got, want, tol), "ConvertedExactlyOnce")
          \cup Cl(U!Close(Ev.got, Ev.si, tol), "SameInternalDataAsSI")
          \cup Cl(U!IsDefault(Ev.dim, T.lu, T.tu, T.mu, T.tmu) \/ want = Ev.usr
                  \/ ~U!Close(Ev.got, Ev.usr, tol), "LeftInUserUnits"))
TrFree == /\ Live("Free")
          /\ Note(Cl(Ev.diff = 0, "UnitFreeDataUnaffected")
                  \cup Cl(Ev.missing = 0 /\ Ev.extra = 0, "SameKeysAsSI"))
TrScalar ==
  /\ Live("Scalar")
  /\ LET tol == 4 + Ev.x \div 50000000 IN
     Note(Cl(U!Close(U!ToSI(Ev.dim, Ev.lu, Ev.tu, Ev.mu, Ev.there), Ev.x, tol), "ScalarConversionExact")
          \cup Cl(U!Close(Ev.back, Ev.x, tol), "ThereAndBackReturnsValue"))
TrRun == /\ Live("Run")
         /\ Note(Cl(Ev.nz = Ev.nzsi /\ Ev.dz <= Ev.tol, "SameMesh")
                 \cup Cl(Ev.dt <= Ev.ttol, "SameTemperatures")
                 \* the summary table prints flow (5 digits), temperature and
                 \* height (2 decimals) of the SI run in the requested units
                 \cup Cl(Ev.tabflow <= 60 /\ Ev.tabtemp <= 8 /\ Ev.tablen <= 8,
                         "ResultsReportedInTheRequestedUnits"))
TrCrash == Live("Crash") /\ Note({"EveryUnitSystemAccepted"})
Report == /\ ~done /\ l > Len(T.ev)
          /\ PrintT(<<"VERDICT", tid, IF verdict = {} THEN "accept" ELSE "reject",
                      IF firstbad # 0 THEN firstbad ELSE l - 1, verdict>>)
          /\ done' = TRUE /\ UNCHANGED <<tid, l, verdict, firstbad>> /\ Frozen
Next == TrLeaf \/ TrFree \/ TrScalar \/ TrRun \/ TrCrash \/ Report
Spec == Init /\ [][Next]_<<tvars, lu, tu, mu, tmu, pend, obj, fpend, pc, outcome>>
=============================================================================

------------------------------ MODULE Trace_Op ------------------------------
(***************************************************************************)
(* Operator probes.  The explicit update of every coolant field is affine  *)
(* in the previous-level temperatures for frozen properties:               *)
(*      T'[i] = SUM_j w[i][j] T[j] + wall[i] Twall + source[i].            *)
(* The harness feeds unit vectors through the REAL update method and logs  *)
(* the operator it actually applies (entries in units of 2^-30).  By       *)
(* linearity the clauses below are statements about EVERY temperature      *)
(* field:                                                                  *)
(*   Row events (receiver i): weights non-negative, sum to one, supported  *)
(*       on the geometric neighbours of i (+ swirl donor)      -> C04, C07 *)
(*   Col events (donor j): mass-flow weighted column sums to 1 - wall[j]:  *)
(*       exchange between cells creates or destroys no heat    -> C01, C02 *)
(*   Limit event: the step limit the code derives is not above the largest *)
(*       step that keeps every self weight non-negative            -> C04 *)
(***************************************************************************)
EXTENDS Bundle, Json, IOUtils, TLC
Traces == ndJsonDeserialize(IOEnv.TRACE_FILE)
VARIABLES tid, l, verdict, firstbad, done
vars == <<tid, l, verdict, firstbad, done>>
T == Traces[tid]
Ev == T.ev[l]
ONE == 134217728   \* 2^27
Close(x, y, tol) == x - y <= tol /\ y - x <= tol
ToCell(x) == <<x[1], x[2], <<x[3], x[4]>>>>
RECURSIVE SumW(_, _)
SumW(s, n) == IF n = 0 THEN 0 ELSE s[n][2] + SumW(s, n - 1)
IsBundle == T.cfg.kind = "bundle"
N == T.cfg.N

Init == tid \in 1..Len(Traces) /\ l = 1 /\ verdict = {} /\ firstbad = 0 /\ done = FALSE
Live(e) == ~done /\ l <= Len(T.ev) /\ Ev.e = e
Note(cl) == /\ verdict' = verdict \cup cl
            /\ firstbad' = IF cl # {} /\ firstbad = 0 THEN l ELSE firstbad
            /\ l' = l + 1 /\ UNCHANGED <<tid, done>>

\* allowed donors of a bundle coolant cell: itself, its coolant neighbours
\* (conduction / mixing) and, for edge and corner cells, the swirl donor
Allowed(c) ==
  {c} \cup CoolAdj(c, N)
  \cup (IF c[1] \in {2, 3}
        THEN {ExtAt(N, SwirlDonor(N, ExtPos(N, c), T.cfg.wire))} ELSE {})
RowClauses(o) ==
  (IF o.self >= -o.tol /\ \A i \in 1..Len(o.nb) : o.nb[i][2] >= -o.tol
   THEN {} ELSE {"WeightsNonNegative"})
  \cup (IF o.wall >= -o.tol THEN {} ELSE {"WallWeightNonNegative"})
  \cup (IF Close(o.self + SumW(o.nb, Len(o.nb)) + o.wall, ONE, o.tol + Len(o.nb))
        THEN {} ELSE {"RowSumsToOne"})
  \cup (IF ~IsBundle \/ {ToCell(o.nb[i][1]) : i \in 1..Len(o.nb)} \subseteq Allowed(ToCell(o.k))
        THEN {} ELSE {"SupportWithinAdjacency"})
  \cup (IF ~IsBundle \/ o.swirl = 0
           \/ \E i \in 1..Len(o.nb) :
                ToCell(o.nb[i][1]) = ExtAt(N, SwirlDonor(N, ExtPos(N, ToCell(o.k)), T.cfg.wire))
        THEN {} ELSE {"SwirlDonorByWireDirection"})
  \cup (IF ~IsBundle \/ o.full = 0
           \/ CoolAdj(ToCell(o.k), N) \subseteq {ToCell(o.nb[i][1]) : i \in 1..Len(o.nb)}
        THEN {} ELSE {"EveryNeighbourCoupled"})
TrRow == Live("Row") /\ Note(RowClauses(Ev))

ColClauses(o) ==
  (IF Close(o.self + SumW(o.rc, Len(o.rc)) + o.wall, ONE, o.tol + Len(o.rc))
   THEN {} ELSE {"ExchangeConservesEnergy"})
TrCol == Live("Col") /\ Note(ColClauses(Ev))

LimitClauses(o) ==
  (IF o.codeLimit <= o.trueLimit + o.tol THEN {} ELSE {"StepLimitKeepsWeightsNonNegative"})
  \cup (IF o.codeLimit > 0 THEN {} ELSE {"StepLimitPositive"})
TrLimit == Live("Limit") /\ Note(LimitClauses(Ev))
TrSigs == Live("Sigs") /\
  Note(IF ~IsBundle \/ {<<o[1], o[2], o[3], o[4]>> : o \in {Ev.sigs[i] : i \in 1..Len(Ev.sigs)}} = Signatures(N)
       THEN {} ELSE {"EverySubchannelTypeHasALimit"})

Report == /\ ~done /\ l > Len(T.ev)
          /\ PrintT(<<"VERDICT", tid, IF verdict = {} THEN "accept" ELSE "reject",
                      IF firstbad # 0 THEN firstbad ELSE l - 1, verdict>>)
          /\ done' = TRUE /\ UNCHANGED <<tid, l, verdict, firstbad>>
Next == TrRow \/ TrCol \/ TrLimit \/ TrSigs \/ Report
Spec == Init /\ [][Next]_vars
=============================================================================

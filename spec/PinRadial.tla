------------------------------ MODULE PinRadial ------------------------------
(***************************************************************************)
(* C13: radial temperature profile of a fuel pin.                          *)
(* One observation o = one pin at one axial step.  Temperatures are in     *)
(* temperature quanta (2^-18 K), heat flows in units of 2^-27 of           *)
(* 4 x (the pin's linear power, or 1 W/m when that is zero).               *)
(*   o.t     = <<T_cool, T_clad_od, T_clad_mw, T_clad_id, T_fuel_od, T_cl>> *)
(*   o.q     = linear power                                                 *)
(*   o.qfilm = 2 pi r_co h (T_clad_od - T_cool)          (film drop)        *)
(*   o.qclad = 2 pi kbar (T_id - T_od) / ln(r_co / r_ci) (clad conduction)  *)
(*   o.qmid  = same between clad OD and mid-wall                            *)
(*   o.qgap  = 2 pi r_f [ kbar (T_f - T_c)/dr + e sigma (T_f^4 - T_c^4) ]   *)
(*   o.tcl   = centreline temperature obtained by solving the shell-by-     *)
(*             shell conduction relation from the reported fuel surface     *)
(*             temperature with the zone conductivities                     *)
(* Heat flows implied by the REPORTED temperature drops must equal the heat *)
(* that has to cross each layer.                                            *)
(***************************************************************************)
EXTENDS Integers, Sequences
Close(x, y, tol) == x - y <= tol /\ y - x <= tol
Ordered(o) == \A i \in 1..5 : o.t[i] <= o.t[i + 1] + o.tolT
ZeroPowerFlat(o) == o.q # 0 \/ \A i \in 1..5 : Close(o.t[i], o.t[i + 1], o.tolT)
FilmDrop(o) == Close(o.qfilm, o.q, o.tolQ)
CladDrop(o) == Close(o.qclad, o.q, o.tolQ) /\ Close(o.qmid, o.q, o.tolQ)
GapDrop(o) == IF o.gap = 0 THEN Close(o.t[5], o.t[4], o.tolT)
              ELSE Close(o.qgap, o.q, o.tolQ)
FuelShells(o) == Close(o.tcl, o.t[6], o.tolCL)
Clauses(o) ==
  (IF o.q < 0 \/ o.kpos = 0 \/ Ordered(o) THEN {} ELSE {"TemperaturesOrderedCoolantToCentre"})
  \cup (IF ZeroPowerFlat(o) THEN {} ELSE {"ZeroPowerMeansCoolantTemperature"})
  \cup (IF FilmDrop(o) THEN {} ELSE {"FilmDropIsClosedForm"})
  \cup (IF CladDrop(o) THEN {} ELSE {"CladDropIsCylindricalConduction"})
  \cup (IF GapDrop(o) THEN {} ELSE {"GapDropIsConductionPlusRadiation"})
  \cup (IF FuelShells(o) THEN {} ELSE {"FuelShellsObeyConduction"})
\* pairs at equal coolant temperature: more power, higher temperatures
Monotone(a, b) == a.q >= b.q \/ a.kpos = 0 \/ b.kpos = 0
                  \/ \A i \in 2..6 : a.t[i] <= b.t[i] + a.tolT
\* coolant temperature assigned to a pin: weighted mean of its adjacent
\* subchannels with the heat fractions of Bundle.tla (weights sum to one)
PinCoolant(o) == Close(o.tcode, o.tgeom, o.tolT) /\ o.wsum12 = 12
=============================================================================

SPECIFICATION Spec
CONSTANTS L = 6
          Scheme = "split"
          Require = "always"
INVARIANT Thm
CHECK_DEADLOCK FALSE

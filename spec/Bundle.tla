------------------------------- MODULE Bundle -------------------------------
(***************************************************************************)
(* Geometric definition of a wire-wrapped hexagonal pin bundle with N pin  *)
(* rings and ND concentric ducts (ND - 1 bypass gaps).                     *)
(*                                                                         *)
(* Nothing here is an index formula of the implementation: cells are named *)
(* by lattice geometry.                                                    *)
(*   interior cell  <<1, 0, S>>   S = sum of the 3 pins of a unit triangle *)
(*   edge cell      <<2, 0, E>>   E = sum of the 2 outer-ring pins         *)
(*   corner cell    <<3, 0, C>>   C = the corner pin                       *)
(*   duct cells     <<4|5, rho, K>>, bypass cells <<6|7, rho, K>>          *)
(*        rho = 1..2ND-1 counts rings outward (odd = duct wall, even =     *)
(*        bypass gap), K = key of the edge / corner coolant cell inside.   *)
(* The dihedral group acts linearly on the key in every case.              *)
(***************************************************************************)
EXTENDS HexLattice

IsPin(p, N) == Dist(p) <= N - 1
Pins(N) == Disk(N - 1)
NPins(N) == 3 * N * (N - 1) + 1

----------------------------------------------------------------------------
\* Interior cells: unit triangles.  Up(p) = {p, p+e1, p+e2} has key
\* 3p + (1,1); Dn(p) = {p+e1, p+e2, p+e1+e2} has key 3p + (2,2).
TriIsUp(S) == S[1] % 3 = 1
TriBase(S) == IF TriIsUp(S) THEN <<(S[1] - 1) \div 3, (S[2] - 1) \div 3>>
                            ELSE <<(S[1] - 2) \div 3, (S[2] - 2) \div 3>>
TriPins(S) == LET p == TriBase(S) IN
              IF TriIsUp(S) THEN {p, Add(p, <<1, 0>>), Add(p, <<0, 1>>)}
              ELSE {Add(p, <<1, 0>>), Add(p, <<0, 1>>), Add(p, <<1, 1>>)}
TriKeyOK(S) == S[1] % 3 = S[2] % 3 /\ S[1] % 3 \in {1, 2}
IsInterior(S, N) == TriKeyOK(S) /\ \A p \in TriPins(S) : IsPin(p, N)
TriNbrKeys(S) == IF TriIsUp(S)
                 THEN {Add(S, <<1, 1>>), Add(S, <<-2, 1>>), Add(S, <<1, -2>>)}
                 ELSE {Add(S, <<-1, -1>>), Add(S, <<2, -1>>), Add(S, <<-1, 2>>)}
SumSet(ps) == LET a == CHOOSE x \in ps : TRUE
                  b == CHOOSE x \in ps \ {a} : TRUE
              IN Add(a, b)
Interior(N) == {S \in (-(3*N)..(3*N)) \X (-(3*N)..(3*N)) : IsInterior(S, N)}

----------------------------------------------------------------------------
\* Exterior ring (edge and corner cells) in CLOCKWISE order, position
\* j = 0 .. 6N-1.  Side s runs from corner pin Cn(s) to Cn(s+1); Cn(0) is
\* the top corner (90 degrees).
Cn(N, s) == Scale(N - 1, Dir(s))
Tn(s) == Sub(Dir(s + 1), Dir(s))
SidePin(N, s, i) == Add(Cn(N, s), Scale(i, Tn(s)))
ExtPins(N, j) == LET s == j \div N  i == j % N IN
                 IF i < N - 1 THEN {SidePin(N, s, i), SidePin(N, s, i + 1)}
                 ELSE {Cn(N, s + 1)}
ExtKind(N, j) == IF j % N < N - 1 THEN 2 ELSE 3
ExtKey(N, j) == LET s == j \div N  i == j % N IN
                IF i < N - 1
                THEN Add(Scale(2, Cn(N, s)), Scale(2 * i + 1, Tn(s)))
                ELSE Cn(N, s + 1)
ExtAt(N, j) == <<ExtKind(N, j), 0, ExtKey(N, j)>>
ExtPosSet(N) == 0 .. (6 * N - 1)
ExtCells(N) == {ExtAt(N, j) : j \in ExtPosSet(N)}
\* inverse of ExtAt by arithmetic (six candidate sides)
Dot(a, b) == a[1] * b[1] + a[2] * b[2]
EdgeM(N, s, E) == Dot(Sub(E, Scale(2, Cn(N, s))), Tn(s)) \div Dot(Tn(s), Tn(s))
EdgeOnSide(N, s, E) == LET m == EdgeM(N, s, E) IN
   /\ m % 2 = 1 /\ m >= 1 /\ m <= 2 * (N - 2) + 1
   /\ E = Add(Scale(2, Cn(N, s)), Scale(m, Tn(s)))
ExtPos(N, c) ==
   IF c[1] = 3 THEN LET s == CHOOSE s \in 0..5 : Cn(N, s) = c[3] IN
                    ((s + 5) % 6) * N + N - 1
   ELSE LET s == CHOOSE s \in 0..5 : EdgeOnSide(N, s, c[3]) IN
        s * N + (EdgeM(N, s, c[3]) - 1) \div 2
IsExtCell(c, N) ==
   IF c[1] = 3 THEN \E s \in 0..5 : Cn(N, s) = c[3]
   ELSE c[1] = 2 /\ \E s \in 0..5 : EdgeOnSide(N, s, c[3])
CWNext(N, j) == (j + 1) % (6 * N)
CCWNext(N, j) == (j + 6 * N - 1) % (6 * N)
\* the interior triangle touching edge position j
EdgeInnerTri(N, j) ==
  LET ps == ExtPins(N, j)
      a == CHOOSE x \in ps : TRUE
      b == CHOOSE x \in ps \ {a} : TRUE
      t == CHOOSE x \in Neighbors(a) \cap Neighbors(b) : IsPin(x, N)
  IN Add(Add(a, b), t)

----------------------------------------------------------------------------
\* Duct and bypass rings
NRho(ND) == 2 * ND - 1
RingKind(rho, extkind) == IF rho % 2 = 1 THEN extkind + 2 ELSE extkind + 4
RingAt(N, rho, j) == <<RingKind(rho, ExtKind(N, j)), rho, ExtKey(N, j)>>
RingBase(c) == <<IF c[1] \in {4, 6} THEN 2 ELSE 3, 0, c[3]>>
RingCells(N, ND) == {RingAt(N, rho, j) : rho \in 1..NRho(ND), j \in ExtPosSet(N)}

CoolantCells(N) == {<<1, 0, S>> : S \in Interior(N)} \cup ExtCells(N)
Cells(N, ND) == CoolantCells(N) \cup RingCells(N, ND)

IsCell(c, N, ND) ==
  \/ c[1] = 1 /\ c[2] = 0 /\ IsInterior(c[3], N)
  \/ c[1] \in {2, 3} /\ c[2] = 0 /\ IsExtCell(c, N)
  \/ c[1] \in 4..7 /\ c[2] \in 1..NRho(ND)
       /\ IsExtCell(RingBase(c), N)
       /\ c[1] = RingKind(c[2], RingBase(c)[1])

----------------------------------------------------------------------------
\* Adjacency (geometric): cells sharing a face
Adj(c, N, ND) ==
  IF c[1] = 1 THEN
    LET S == c[3] IN
    {<<1, 0, T>> : T \in {T \in TriNbrKeys(S) : IsInterior(T, N)}}
    \cup {<<2, 0, SumSet(TriPins(S) \cap TriPins(T))>> :
              T \in {T \in TriNbrKeys(S) : ~IsInterior(T, N)}}
  ELSE IF c[2] = 0 THEN
    LET j == ExtPos(N, c) IN
    {ExtAt(N, CWNext(N, j)), ExtAt(N, CCWNext(N, j)), RingAt(N, 1, j)}
    \cup (IF c[1] = 2 THEN {<<1, 0, EdgeInnerTri(N, j)>>} ELSE {})
  ELSE
    LET rho == c[2]
        j == ExtPos(N, RingBase(c)) IN
    {RingAt(N, rho, CWNext(N, j)), RingAt(N, rho, CCWNext(N, j)),
     IF rho = 1 THEN ExtAt(N, j) ELSE RingAt(N, rho - 1, j)}
    \cup (IF rho < NRho(ND) THEN {RingAt(N, rho + 1, j)} ELSE {})

\* Coolant-to-coolant adjacency only (what conduction / mixing uses)
CoolAdj(c, N) == {d \in Adj(c, N, 1) : d[1] \in 1..3}

\* Pins touching a coolant cell, and cells touching a pin
CellPins(c, N) == IF c[1] = 1 THEN TriPins(c[3]) ELSE ExtPins(N, ExtPos(N, c))
PinTriKeys(p) == LET b == Scale(3, p) IN
  {Add(b, <<1, 1>>), Add(b, <<-2, 1>>), Add(b, <<1, -2>>),
   Add(b, <<-1, 2>>), Add(b, <<2, -1>>), Add(b, <<-1, -1>>)}
PinCells(p, N) ==
  {<<1, 0, S>> : S \in {S \in PinTriKeys(p) : IsInterior(S, N)}}
  \cup (IF Dist(p) = N - 1
        THEN {ExtAt(N, j) : j \in {j \in ExtPosSet(N) : p \in ExtPins(N, j)}}
        ELSE {})
\* Share of a pin's surface facing a cell of each kind, in twelfths
Frac12(kind) == IF kind = 2 THEN 3 ELSE 2
SumFrac(cs) ==
  LET RECURSIVE F(_)
      F(s) == IF s = {} THEN 0
              ELSE LET c == CHOOSE x \in s : TRUE IN Frac12(c[1]) + F(s \ {c})
  IN F(cs)

\* Swirl: with a clockwise wire the swirl flow moves clockwise, so the
\* donor of a cell is its counter-clockwise neighbour (and vice versa).
SwirlDonor(N, j, wire) == IF wire = "clockwise" THEN CCWNext(N, j)
                          ELSE CWNext(N, j)

\* Neighbour-type signature of a coolant cell, e.g. <<1, {|1,1,2|}>>; the
\* step-size criteria of the solver are written per signature.
SigOf(c, N) == LET ns == CoolAdj(c, N) IN
   <<c[1], Cardinality({d \in ns : d[1] = 1}),
           Cardinality({d \in ns : d[1] = 2}),
           Cardinality({d \in ns : d[1] = 3})>>
Signatures(N) == {SigOf(c, N) : c \in CoolantCells(N)}

----------------------------------------------------------------------------
\* Group action on cells
ActCell(g, c) == <<c[1], c[2], Act(g, c[3])>>

\* ---- theorems of the definition, checked by MC_Bundle for N = 2..MaxN ----
CountsOK(N, ND) ==
  /\ Cardinality(Interior(N)) = 6 * (N - 1) * (N - 1)
  /\ Cardinality({c \in ExtCells(N) : c[1] = 2}) = 6 * (N - 1)
  /\ Cardinality({c \in ExtCells(N) : c[1] = 3}) = 6
  /\ Cardinality(ExtCells(N)) = 6 * N
  /\ Cardinality(RingCells(N, ND)) = 6 * N * NRho(ND)
AdjSymmetric(N, ND) ==
  \A c \in Cells(N, ND) : \A d \in Adj(c, N, ND) :
      IsCell(d, N, ND) /\ c \in Adj(d, N, ND) /\ d # c
DegreeOK(N, ND) ==
  \A c \in Cells(N, ND) :
     LET k == Cardinality(Adj(c, N, ND)) IN
     IF c[1] = 1 THEN k = 3
     ELSE IF c[1] = 2 THEN k = 4
     ELSE IF c[1] = 3 THEN k = 3
     ELSE IF c[2] < NRho(ND) THEN k = 4 ELSE k = 3
PinFractionsOK(N) ==
  \A p \in Pins(N) : SumFrac(PinCells(p, N)) = 12
PinDegreeOK(N) ==
  \A p \in Pins(N) :
     /\ Cardinality(PinCells(p, N)) = IF Dist(p) = N - 1 THEN 5 ELSE 6
     /\ \A c \in PinCells(p, N) : p \in CellPins(c, N)
PinCellsComplete(N) ==
  \A c \in CoolantCells(N) : \A p \in CellPins(c, N) : c \in PinCells(p, N)
Equivariant(N, ND) ==
  \A g \in D6 : \A c \in Cells(N, ND) :
     /\ IsCell(ActCell(g, c), N, ND)
     /\ Adj(ActCell(g, c), N, ND) = {ActCell(g, d) : d \in Adj(c, N, ND)}
PinEquivariant(N) ==
  \A g \in D6 : \A c \in CoolantCells(N) :
     CellPins(ActCell(g, c), N) = {Act(g, p) : p \in CellPins(c, N)}
\* rotation maps the clockwise successor to the clockwise successor, the
\* mirror maps it to the counter-clockwise one (hence wire reversal)
SwirlEquivariant(N) ==
  \A j \in ExtPosSet(N) :
     /\ \A k \in 0..5 :
          ExtPos(N, ActCell(<<k, 0>>, ExtAt(N, CWNext(N, j))))
            = CWNext(N, ExtPos(N, ActCell(<<k, 0>>, ExtAt(N, j))))
     /\ ExtPos(N, ActCell(<<0, 1>>, ExtAt(N, CWNext(N, j))))
            = CCWNext(N, ExtPos(N, ActCell(<<0, 1>>, ExtAt(N, j))))
SignaturesOK(N) ==
  Signatures(N) =
     {<<1, 2, 1, 0>>, <<3, 0, 2, 0>>}
     \cup (IF N = 2 THEN {<<2, 1, 0, 2>>} ELSE {<<1, 3, 0, 0>>, <<2, 1, 1, 1>>})
     \cup (IF N >= 4 THEN {<<2, 1, 2, 0>>} ELSE {})
=============================================================================

------------------------------- MODULE OutData -------------------------------
(***************************************************************************)
(* Requested assembly data tables (Setup // AssemblyTables, written by      *)
(* Reactor.write_assembly_data_tables from the dump files).  Beyond the     *)
(* listed properties (DESIGN.md 11.9).                                      *)
(*                                                                          *)
(* The sweep writes one row per assembly and dumped plane (DumpSched.tla    *)
(* says which planes are dumped), keyed by the base-0 assembly id.  A       *)
(* request names an assembly (base 1) and a height, which need not be a     *)
(* plane: post-processing takes the row of the plane if the height is a     *)
(* dumped plane, and otherwise interpolates linearly between the nearest    *)
(* dumped plane and its neighbour on the other side of the height           *)
(* (dassh.plot._interp_z).  Values are kept as <<numerator, denominator>>.  *)
(***************************************************************************)
EXTENDS Integers, Sequences, FiniteSets, TLC
CONSTANTS LEN, MAXDZ, NASM, Vals,
          Intv,      \* dump interval (0: every step)
          Lookup     \* "code" | "base1" (assembly id not shifted)
                     \* | "below" (row at or below instead of interpolation)
None == <<0, 0>>
VARIABLES pos, acc, bnds, req, hist, rows, tables, phase
vars == <<pos, acc, bnds, req, hist, rows, tables, phase>>
Asm == 1..NASM
Init == /\ pos = 0 /\ acc = 0 /\ phase = "sweep"
        /\ bnds \in {b \in SUBSET (1..LEN) : LEN \in b}
        /\ \E q \in Asm \X (1..LEN) : req = {q}   \* requests are served independently
        /\ hist = <<>>               \* plane -> field (history variable)
        /\ rows = {} /\ tables = <<>>
NextBnd == CHOOSE b \in bnds : b > pos /\ \A c \in bnds : c > pos => b <= c
Step == /\ phase = "sweep" /\ pos < LEN
        /\ \E dz \in 1..MAXDZ : \E f \in [Asm -> Vals] :
             LET p == pos + dz  a == acc + dz
                 dump == Intv = 0 \/ a >= Intv \/ p \in bnds IN
             /\ p <= NextBnd
             /\ pos' = p
             /\ hist' = [z \in DOMAIN hist \cup {p} |-> IF z = p THEN f ELSE hist[z]]
             /\ acc' = IF Intv # 0 /\ a >= Intv THEN 0 ELSE a
             /\ rows' = IF dump THEN rows \cup {<<p, i - 1, f[i]>> : i \in Asm}
                        ELSE rows
        /\ UNCHANGED <<bnds, req, tables, phase>>
EndSweep == /\ phase = "sweep" /\ pos = LEN /\ phase' = "post"
            /\ UNCHANGED <<pos, acc, bnds, req, hist, rows, tables>>
\* ---- post-processing -----------------------------------------------------
D == {r[1] : r \in rows}                      \* dumped planes
Abs(x) == IF x < 0 THEN 0 - x ELSE x
Key(q) == IF Lookup = "base1" THEN q[1] ELSE q[1] - 1
Val(p, k) == LET c == {r \in rows : r[1] = p /\ r[2] = k} IN
             IF c = {} THEN 0 ELSE (CHOOSE r \in c : TRUE)[3]
Pred(p) == {x \in D : x < p}
Succ(p) == {x \in D : x > p}
Max(S) == CHOOSE x \in S : \A y \in S : y <= x
Min(S) == CHOOSE x \in S : \A y \in S : x <= y
\* numpy.argmin: the first (lowest) of the nearest planes
Nearest(z) == Min({p \in D : \A x \in D : Abs(p - z) <= Abs(x - z)})
Lower(z) == LET n == Nearest(z) IN
            IF n > z THEN (IF Pred(n) = {} THEN Max(D)   \* index -1 wraps round
                           ELSE Max(Pred(n)))
            ELSE n
Upper(z) == LET n == Nearest(z) IN IF n > z THEN n ELSE Min(Succ(n))
RowAt(q) ==
  LET z == q[2]  k == Key(q) IN
  IF z \in D THEN <<Val(z, k), 1>>
  ELSE IF Lookup = "below"
       THEN (IF Pred(z) = {} THEN None ELSE <<Val(Max(Pred(z)), k), 1>>)
  ELSE LET z1 == Lower(z)  z2 == Upper(z) IN
       <<Val(z1, k) * (z2 - z) + Val(z2, k) * (z - z1), z2 - z1>>
Post == /\ phase = "post" /\ phase' = "done"
        /\ tables' = [q \in req |-> RowAt(q)]
        /\ UNCHANGED <<pos, acc, bnds, req, hist, rows>>
Next == Step \/ EndSweep \/ Post
Spec == Init /\ [][Next]_vars /\ WF_vars(Next)
\* ------------------------------------------------------------------------
\* a request is in range when some dumped plane lies at or below it (the
\* inlet plane has no row)
InRange(q) == \E p \in D : p <= q[2]
Lo(z) == Max({p \in D : p <= z})
Hi(z) == Min({p \in D : p >= z})
Want(q) == LET z == q[2]  a == q[1] IN
           IF Lo(z) = Hi(z) THEN <<hist[z][a], 1>>
           ELSE <<hist[Lo(z)][a] * (Hi(z) - z) + hist[Hi(z)][a] * (z - Lo(z)),
                  Hi(z) - Lo(z)>>
\* the table shows the field of the requested assembly, interpolated between
\* the two dumped planes that enclose the height (exactly the plane's field
\* when the height is a dumped plane)
TablesInterpolatePlaneData == phase = "done" =>
    \A q \in req : InRange(q) => tables[q] = Want(q)
\* ... and a request below the first dumped plane is still answered from
\* planes that enclose it (needs a row for the inlet plane; fails for the
\* code's rule, whose index -1 wraps round to the outlet plane)
BelowFirstRowEnclosed == phase = "done" =>
    \A q \in req : ~InRange(q) => tables[q][2] > 0 /\ Lower(q[2]) <= q[2]
OutletDumped == phase # "sweep" => LEN \in D
OneRowPerAssemblyAndPlane == \A r, s \in rows : r[1] = s[1] /\ r[2] = s[2] => r = s
Finishes == <>(phase = "done")
=============================================================================

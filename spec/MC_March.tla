------------------------------ MODULE MC_March ------------------------------
(* Design-level model of the march with small integer heats.  TLC proves,  *)
(* in small scope, that the local contracts of March.tla together with the *)
(* specified schedule (all assemblies with OLD gap temperatures, then the  *)
(* gap with NEW duct temperatures) imply the sweep and whole-core energy   *)
(* balances at every plane; the Neg_* configurations show that neither a   *)
(* free schedule nor a leaking wall does.                                   *)
EXTENDS March, TLC
CONSTANTS NA,          \* number of assemblies
          Planes,      \* number of planes
          Variant      \* "spec" | "gap_any_time" | "leaky_wall" | "sixnode"
VARIABLES hist,        \* what each assembly sent out in the previous step
          gapdone      \* free-schedule variant: gap already advanced in this step
vars == <<mvars, hist, gapdone>>

Six(a) == Variant = "sixnode" /\ a = 1
\* six-node: the coolant receives what the wall passed on one step earlier
WI(a, w) == IF Six(a) THEN -lagpend[a] ELSE w
GI(a, g) == IF Six(a) THEN 0 ELSE g
Heat == 0..1
WallHeat == -1..1
\* an assembly observation consistent with the local contracts
Obs(a) ==
  { [a |-> a, k |-> k, kind |-> IF Variant = "sixnode" /\ a = 1 THEN "6node" ELSE "rod",
     cls |-> "const", adia |-> 0, lagB |-> 0,
     dH |-> qq + WI(a, w), qPins |-> qq, qCool |-> 0, qRefl |-> 0, qDuct |-> GI(a, g),
     wallIn |-> WI(a, w), wallInLag |-> WI(a, w),
     ductOut |-> IF Variant = "leaky_wall" /\ g = 1 THEN g - w - 1
                 ELSE IF Six(a) THEN w ELSE g - w,
     ebPower |-> qq, ebDuct |-> w, pdPins |-> qq, pdCool |-> 0,
     pdDuct |-> g, pdRefl |-> 0,
     HTot |-> H[a] + qq + WI(a, w), QTot |-> Q[a] + qq, GTot |-> G[a] + GI(a, g),
     WTot |-> W[a] + WI(a, w),
     OTot |-> O[a] + (IF Variant = "leaky_wall" /\ g = 1 THEN g - w - 1
                      ELSE IF Six(a) THEN w ELSE g - w),
     minT |-> 1, maxT |-> 1, preMin |-> 1, preMax |-> 1, inT |-> 1,
     pos |-> 1, zero |-> 0] : qq \in Heat, g \in Heat, w \in WallHeat }

\* the gap observation the code would produce: it credits what the duct
\* temperatures it is GIVEN imply - pend (fresh) for assemblies already
\* advanced in this step, the previous step's value otherwise.
GapObs ==
  LET cr == [a \in 1..NA |-> IF a \in todo THEN hist[a] ELSE pend[a]] IN
  [k |-> k, dHgap |-> SumF(cr, NA), credit |-> cr, ebAsm |-> cr,
   pend |-> pend,
   HgapTot |-> Hgap + SumF(cr, NA), CTot |-> [a \in 1..NA |-> C[a] + cr[a]]]

Init == MInit(NA, "flow") /\ hist = [a \in 1..NA |-> 0] /\ gapdone = FALSE
DoAsm == \E a \in todo : \E o \in Obs(a) :
            /\ (IF Variant = "leaky_wall" THEN AsmClauses(o) \subseteq {"DuctWallsStoreNoHeat"} /\ AsmUpdate(o)
                ELSE AsmStep(o))
            /\ hist' = hist /\ gapdone' = gapdone
DoGap == ~gapdone /\ GapStep(GapObs) /\ hist' = hist /\ gapdone' = gapdone
\* free-schedule variant: the gap is advanced while some assemblies still
\* carry the previous step's duct temperatures
DoGapEarly == /\ Variant = "gap_any_time" /\ pc = "asm" /\ ~gapdone
              /\ todo # {} /\ todo # Asm
              /\ LET o == GapObs IN
                 /\ Hgap' = o.HgapTot /\ C' = [a \in Asm |-> o.CTot[a]]
              /\ gapdone' = TRUE /\ hist' = hist
              /\ UNCHANGED <<nasm, pc, k, todo, H, Q, G, W, O, pend, lagpend, lagged, lagvalid, gapmodel, tmin, tmax>>
DoSkipGap == /\ pc = "gap" /\ gapdone /\ pc' = "region" /\ gapdone' = FALSE /\ hist' = hist
             /\ UNCHANGED <<nasm, k, todo, H, Q, G, W, O, pend, lagpend, lagged, lagvalid, Hgap, C, gapmodel, tmin, tmax>>
DoEnd == EndStep /\ k < Planes /\ hist' = pend /\ gapdone' = gapdone
Next == DoAsm \/ DoGap \/ DoGapEarly \/ DoSkipGap \/ DoEnd
Spec == Init /\ [][Next]_vars

Bounded == k <= Planes
InvSweep == SweepBal
InvAsm == AtBoundary => AsmBal
InvCore == CoreBal
InvCredit == GapCredit
\* six-node variant: the core balance holds up to the heat still pending
InvCoreLag == AtBoundary =>
   Close(SumF(H, nasm) + Hgap - LagSum, SumF(Q, nasm) + SumF(G, nasm), TolSweep)
=============================================================================

----------------------------- MODULE HexLattice -----------------------------
(***************************************************************************)
(* Hexagonal lattice in axial coordinates (q, r).                          *)
(*                                                                         *)
(* Basis used for DASSH pin bundles: e1 points at 30 degrees, e2 at 90     *)
(* degrees (pin 2 of the code sits straight above the centre pin).  The    *)
(* same lattice, with a different embedding, describes assembly positions  *)
(* in the core.  Everything here is integer and exact.                     *)
(***************************************************************************)
EXTENDS Integers, FiniteSets, Sequences

Abs(x) == IF x < 0 THEN -x ELSE x
Max2(a, b) == IF a >= b THEN a ELSE b
Min2(a, b) == IF a <= b THEN a ELSE b
Max3(a, b, c) == Max2(a, Max2(b, c))

Add(p, d) == <<p[1] + d[1], p[2] + d[2]>>
Sub(p, d) == <<p[1] - d[1], p[2] - d[2]>>
Scale(k, p) == <<k * p[1], k * p[2]>>

\* hex distance from the origin
Dist(p) == Max3(Abs(p[1]), Abs(p[2]), Abs(p[1] + p[2]))

\* The six unit directions, listed CLOCKWISE starting from "north" (90 deg):
\* 90, 30, -30, -90, -150, 150 degrees.
Dirs == << <<0, 1>>, <<1, 0>>, <<1, -1>>, <<0, -1>>, <<-1, 0>>, <<-1, 1>> >>
DirSet == {Dirs[i] : i \in 1..6}
Dir(s) == Dirs[(s % 6) + 1]            \* s is 0-based, any integer

\* Rotation by +60 degrees (counter-clockwise) and its powers; Rot^6 = id.
Rot(p) == <<-p[2], p[1] + p[2]>>
RotK(k, p) ==
  LET kk == k % 6 IN
  IF kk = 0 THEN p
  ELSE IF kk = 1 THEN Rot(p)
  ELSE IF kk = 2 THEN Rot(Rot(p))
  ELSE IF kk = 3 THEN <<-p[1], -p[2]>>
  ELSE IF kk = 4 THEN Rot(<<-p[1], -p[2]>>)
  ELSE Rot(Rot(<<-p[1], -p[2]>>))
\* clockwise rotation by 60 degrees
RotCW(p) == RotK(5, p)

\* Mirror across the axis at 60 degrees (swaps e1 and e2).
Mir(p) == <<p[2], p[1]>>

\* The 12 elements of the dihedral group D6 as <<k, m>>: rotate k then
\* (if m = 1) mirror.
D6 == (0..5) \X {0, 1}
Act(g, p) == IF g[2] = 1 THEN Mir(RotK(g[1], p)) ELSE RotK(g[1], p)

\* All lattice points within hex distance n of the origin.
Disk(n) == {p \in (-n..n) \X (-n..n) : Dist(p) <= n}
Ring(n) == {p \in Disk(n) : Dist(p) = n}

Neighbors(p) == {Add(p, d) : d \in DirSet}

\* Sanity theorems (checked by MC_HexLattice)
RotOrder6 == \A p \in Disk(3) : RotK(6, p) = p /\ RotK(1, RotK(5, p)) = p
RotIsometry == \A p \in Disk(3) : Dist(Rot(p)) = Dist(p) /\ Dist(Mir(p)) = Dist(p)
DirsClockwise == \A s \in 0..5 : Dir(s + 1) = RotCW(Dir(s))
RingCount == \A n \in 1..4 : Cardinality(Ring(n)) = 6 * n
=============================================================================

----------------------------- MODULE MC_Orifice -----------------------------
EXTENDS Orifice
FactDef == {<<1, 2>>, <<1, 1>>, <<3, 2>>}
\* behaviours for replay: one line per finished run
EmitDone == pc = "done" => PrintT(<<"RUN", pw, ng, cut0, delta, outcome, sizes, it>>)
FactOne == {<<1, 1>>, <<3, 2>>}
=============================================================================

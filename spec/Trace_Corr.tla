----------------------------- MODULE Trace_Corr -----------------------------
EXTENDS Corr, Json, IOUtils, TLC
Traces == ndJsonDeserialize(IOEnv.TRACE_FILE)
VARIABLES tid, l, done
vars == <<tid, l, done>>
T == Traces[tid]
\* one trace = one observation: verdict printed directly
Init == tid \in 1..Len(Traces) /\ l = 1 /\ done = FALSE
Report == /\ ~done
          /\ LET cl == Clauses(T.ev[1]) IN
             PrintT(<<"VERDICT", tid, IF cl = {} THEN "accept" ELSE "reject", 1, cl>>)
          /\ done' = TRUE /\ UNCHANGED <<tid, l>>
Next == Report
Spec == Init /\ [][Next]_vars
=============================================================================

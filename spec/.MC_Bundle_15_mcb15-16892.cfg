SPECIFICATION Spec
CONSTANTS MinN = 15
          MaxN = 15
          MaxND = 3
INVARIANT ThmCounts
INVARIANT ThmAdjSymmetric
INVARIANT ThmDegree
INVARIANT ThmPinFractions
INVARIANT ThmPinDegree
INVARIANT ThmEquivariant
INVARIANT ThmPinEquivariant
INVARIANT ThmSwirl
INVARIANT ThmSignatures
INVARIANT ThmLattice
CHECK_DEADLOCK FALSE

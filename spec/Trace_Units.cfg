SPECIFICATION Spec
CONSTANTS
  KeysL = {"length"}
  KeysT = {"coolant_inlet_temp"}
  NPos = 1
  LenUnits = {"m"}
  TempUnits = {"k"}
  MassUnits = {"kg"}
  TimeUnits = {"s"}
  Variant = "reader"
CHECK_DEADLOCK FALSE

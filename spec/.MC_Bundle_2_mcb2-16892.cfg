SPECIFICATION Spec
CONSTANTS MinN = 2
          MaxN = 2
          MaxND = 3
INVARIANT ThmCounts
INVARIANT ThmAdjSymmetric
INVARIANT ThmDegree
INVARIANT ThmPinFractions
INVARIANT ThmPinDegree
INVARIANT ThmEquivariant
INVARIANT ThmPinEquivariant
INVARIANT ThmSwirl
INVARIANT ThmSignatures
INVARIANT ThmLattice
CHECK_DEADLOCK FALSE

----------------------------- MODULE InputGuard -----------------------------
(***************************************************************************)
(* Which inputs describe a real problem, and where the reader stops the     *)
(* others (C18).                                                             *)
(*                                                                          *)
(* Part 1 - validity of an input from its facts (integers; lengths in       *)
(* units of 1e-5 m).  Every predicate is one class of the property:         *)
(* impossible geometry, non-positive dimensions, duct against pitch,        *)
(* unequal outer ducts, axial regions, boundary conditions, names, power    *)
(* profile.  Reasons(f) names the classes an input violates.                *)
(* Part 2 - the guard pipeline: schema validation, semantic checks, model   *)
(* set-up (power file, assemblies, mesh), sweep.  A fault must be stopped   *)
(* at a stage before the sweep; a fault-free input must reach the end.      *)
(***************************************************************************)
EXTENDS Integers, Sequences, FiniteSets, TLC

Min2(a, b) == IF a < b THEN a ELSE b
\* ---- part 1 ---------------------------------------------------------------
PositiveDims(f) ==
  /\ f.n >= 1 /\ f.P > 0 /\ f.D > 0 /\ f.clad > 0 /\ f.Dw >= 0 /\ f.Pw >= 0
  /\ (f.Dw > 0 => f.Pw > 0)
  /\ \A i \in 1..Len(f.ftf) : f.ftf[i] > 0
  /\ f.pitch > 0 /\ f.L > 0 /\ f.mesh # 0
\* sqrt(3) (n - 1) P + D + 2 Dw <= inner flat-to-flat; sqrt(3) as 1732/1000
PinsFit(f) ==
  f.lowfi = 1 \/ Len(f.ftf) < 2 \/
  LET x == Min2(f.ftf[1], f.ftf[2]) - f.D - 2 * f.Dw IN
  x >= 0 /\ 1732 * (f.n - 1) * f.P <= 1000 * x
WireFits(f) == f.Dw <= f.P - f.D
CladFits(f) == 2 * f.clad <= f.D
DuctOK(f) ==
  /\ Len(f.ftf) % 2 = 0 /\ Len(f.ftf) >= 2
  /\ \A d \in 1..(Len(f.ftf) \div 2) : f.ftf[2 * d - 1] # f.ftf[2 * d]
  /\ \A i \in 1..Len(f.ftf) : f.ftf[i] < f.pitch
EqualOuter(f) == \A i, j \in 1..Len(f.outer) : f.outer[i] = f.outer[j]
\* regions sorted by lower bound by the harness; gaps: below the first,
\* between neighbours, above the last
Gaps(f) ==
  LET r == f.regs n == Len(r) IN
  IF n = 0 THEN <<f.L>>
  ELSE <<r[1][1]>> \o [i \in 1..(n - 1) |-> r[i + 1][1] - r[i][2]] \o <<f.L - r[n][2]>>
RegionsOK(f) ==
  f.lowfi = 1 \/
  /\ \A i \in 1..Len(f.regs) : f.regs[i][1] >= 0 /\ f.regs[i][1] < f.regs[i][2]
                                /\ f.regs[i][2] <= f.L
  /\ LET g == Gaps(f) IN
     /\ \A i \in 1..Len(g) : g[i] >= 0                       \* no overlap
     /\ Cardinality({i \in 1..Len(g) : g[i] > 0}) = 1        \* one rod bundle
BCsOK(f) == \A a \in 1..Len(f.nbc) : f.nbc[a] = 1 /\ f.bcval[a] = 1
\* every assignment line <<ring, first, last>> names positions that the ring
\* has: ring 1 has one position, ring r has 6 (r - 1)
PositionsOK(f) ==
  \A i \in 1..Len(f.lines) :
    LET r == f.lines[i][1] lo == f.lines[i][2] hi == f.lines[i][3] IN
    /\ r >= 1 /\ lo >= 1 /\ lo <= hi
    /\ hi <= (IF r = 1 THEN 1 ELSE 6 * (r - 1))
NamesOK(f) == \A i \in 1..Len(f.names) : f.names[i] = 1
PowerOK(f) == \A i \in 1..Len(f.pow) : f.pow[i] = 1
Reasons(f) ==
  (IF PositiveDims(f) THEN {} ELSE {"NonPositiveDimension"})
  \cup (IF ~PositiveDims(f) \/ PinsFit(f) THEN {} ELSE {"PinsDoNotFit"})
  \cup (IF ~PositiveDims(f) \/ WireFits(f) THEN {} ELSE {"WireThickerThanGap"})
  \cup (IF ~PositiveDims(f) \/ CladFits(f) THEN {} ELSE {"CladThickerThanRadius"})
  \cup (IF ~PositiveDims(f) \/ DuctOK(f) THEN {} ELSE {"DuctAgainstPitchOrWalls"})
  \cup (IF EqualOuter(f) THEN {} ELSE {"UnequalOuterDucts"})
  \cup (IF ~PositiveDims(f) \/ RegionsOK(f) THEN {} ELSE {"AxialRegionsOverlapOrInverted"})
  \cup (IF BCsOK(f) THEN {} ELSE {"BoundaryCondition"})
  \cup (IF PositionsOK(f) THEN {} ELSE {"PositionOutsideRing"})
  \cup (IF NamesOK(f) THEN {} ELSE {"UnknownMaterialOrCorrelation"})
  \cup (IF PowerOK(f) THEN {} ELSE {"PowerProfile"})

\* ---- part 2 ---------------------------------------------------------------
CONSTANTS Faults,      \* fault classes
          CaughtAt     \* [Faults -> {"schema", "semantic", "setup", "none"}]
VARIABLES fault, stage, outcome, computed
gvars == <<fault, stage, outcome, computed>>
Stages == <<"schema", "semantic", "setup", "sweep", "end">>
NextStage(s) == CASE s = "schema" -> "semantic" [] s = "semantic" -> "setup"
                  [] s = "setup" -> "sweep" [] s = "sweep" -> "end" [] OTHER -> "end"
GInit == /\ fault \in Faults \cup {"none"} /\ stage = "schema"
         /\ outcome = "run" /\ computed = FALSE
Check == /\ outcome = "run" /\ stage \in {"schema", "semantic", "setup"}
         /\ IF fault # "none" /\ CaughtAt[fault] = stage
            THEN outcome' = "rejected" /\ UNCHANGED <<stage, computed>>
            ELSE stage' = NextStage(stage) /\ UNCHANGED <<outcome, computed>>
         /\ UNCHANGED fault
SweepStep == /\ outcome = "run" /\ stage = "sweep"
             /\ computed' = TRUE /\ outcome' = "swept" /\ stage' = "end"
             /\ UNCHANGED fault
GNext == Check \/ SweepStep
GSpec == GInit /\ [][GNext]_gvars /\ WF_gvars(GNext)
NoComputeOnInvalid == fault # "none" => ~computed
RejectedBeforeCompute == outcome = "rejected" => ~computed
AcceptedRuns == (fault = "none") ~> (outcome = "swept")
InvalidStopped == (fault # "none") ~> (outcome = "rejected")
=============================================================================

------------------------------- MODULE Orifice -------------------------------
(***************************************************************************)
(* Orifice grouping and flow distribution (C20), shaped like                *)
(* dassh/orificing.py:                                                      *)
(*                                                                          *)
(*   _group      repeated sorted sweeps over the grouping parameter; a new  *)
(*               group is opened when (max - min) / mean of the candidate   *)
(*               group exceeds the cut-off; the cut-off is relaxed by a     *)
(*               fixed increment while there are too many groups and        *)
(*               divided by ten while there are too few; the loop ends when *)
(*               the requested number is met or the iteration limit is hit  *)
(*   distribute  fixed-point redistribution: every group but the last is    *)
(*               rescaled by a factor (from the response curves - any       *)
(*               positive factor here), held to the smallest pressure-drop  *)
(*               flow limit of its members, and the remainder goes to the   *)
(*               last group; final checks turn impossible cases into errors *)
(*                                                                          *)
(* One action per loop body of the code.  Rule selects the variant:         *)
(*   "fixed"      the tree after the two fix: commits                        *)
(*   "stuck"      cut-off rule compares with NG - 1 (pre-fix)                *)
(*   "nolast"     no limit check on the remainder (pre-fix)                  *)
(*   "firsttype"  limit of a group taken from its first member's type        *)
(* Integers only: parameter values are small naturals, the cut-off is in    *)
(* units of 1/SC, flows are integer quanta and the last group is carried    *)
(* as its total (per-member flow = lastTot / members).                       *)
(***************************************************************************)
EXTENDS Integers, Sequences, FiniteSets, TLC

CONSTANTS NA,          \* assemblies to group (ids 1..NA)
          PMAX,        \* parameter values 1..PMAX
          CUTS, DELTAS, \* initial cut-offs and increments (units 1/SC)
          SC, ITMAX,
          TYPES,       \* assembly types
          LIMS,        \* candidate flow limits per type (0 = no limit at all)
          MT,          \* total flow quanta (multiple of NA)
          FACT,        \* redistribution factors <<num, den>>
          DMAX,        \* redistribution iterations explored (0: grouping only)
          Rule

VARIABLES pw, ng, cut, cut0, delta, it, sizes, grp, pc, outcome,
          ty, lim, m, lastTot, flag, k
vars == <<pw, ng, cut, cut0, delta, it, sizes, grp, pc, outcome,
          ty, lim, m, lastTot, flag, k>>

Ids == 1..NA
RECURSIVE SumF(_, _)
SumF(f, S) == IF S = {} THEN 0 ELSE LET x == CHOOSE y \in S : TRUE IN f[x] + SumF(f, S \ {x})
RECURSIVE SumSeq(_)
SumSeq(s) == IF s = <<>> THEN 0 ELSE Head(s) + SumSeq(Tail(s))
Min(S) == CHOOSE x \in S : \A y \in S : x <= y

\* ---- the sorted sweep -----------------------------------------------------
\* values in descending order (ties in any order: only values matter)
RECURSIVE SortDesc(_)
SortDesc(S) ==    \* S: set of ids still to place
  IF S = {} THEN <<>>
  ELSE LET i == CHOOSE a \in S : \A b \in S : pw[a] >= pw[b] IN <<i>> \o SortDesc(S \ {i})
Order == SortDesc(Ids)               \* ids by descending parameter
Vals == [j \in 1..NA |-> pw[Order[j]]]

\* does adding value p to a group (largest gmax, sum gsum, glen members)
\* exceed the cut-off c?  (max - min) / mean > c / SC, min = p (sorted)
Split(gmax, gsum, glen, p, c) == (gmax - p) * (glen + 1) * SC > c * (gsum + p)
RECURSIVE SweepFrom(_, _, _, _, _, _)
SweepFrom(S, i, gmax, gsum, glen, c) ==
  IF i > Len(S) THEN <<glen>>
  ELSE IF Split(gmax, gsum, glen, S[i], c)
       THEN <<glen>> \o SweepFrom(S, i + 1, S[i], S[i], 1, c)
       ELSE SweepFrom(S, i + 1, gmax, gsum + S[i], glen + 1, c)
Sweep(S, c) == SweepFrom(S, 2, S[1], S[1], 1, c)

\* group number (0-based) of the j-th sorted element for a list of sizes
RECURSIVE GroupOfPos(_, _, _)
GroupOfPos(sz, j, g) == IF j <= Head(sz) THEN g ELSE GroupOfPos(Tail(sz), j - Head(sz), g + 1)
Assign(sz) == [i \in Ids |-> LET j == CHOOSE x \in 1..NA : Order[x] = i IN GroupOfPos(sz, j, 0)]

Members(g) == {i \in Ids : grp[i] = g}
Last == ng - 1

Init ==
  /\ pw \in [Ids -> 1..PMAX] /\ ng \in 1..NA
  /\ cut \in CUTS /\ cut0 = cut /\ delta \in DELTAS
  /\ it = 0 /\ sizes = <<>> /\ grp = [i \in Ids |-> 0]
  /\ pc = "sweep" /\ outcome = "run"
  /\ ty \in [Ids -> TYPES] /\ lim \in [TYPES -> LIMS]
  /\ m = [i \in Ids |-> MT \div NA] /\ lastTot = 0
  /\ flag = [g \in 0..(NA - 1) |-> 0] /\ k = 0

\* ---- _group: one pass of the while loop ------------------------------------
More(n) == IF Rule = "stuck" THEN n > ng - 1 ELSE n > ng
Fewer(n) == IF Rule = "stuck" THEN n < ng - 1 ELSE n < ng
Pass ==
  /\ pc = "sweep"
  /\ LET sz == Sweep(Vals, cut) n == Len(sz) IN
     /\ sizes' = sz /\ it' = it + 1
     /\ cut' = IF More(n) THEN cut + delta ELSE IF Fewer(n) THEN cut \div 10 ELSE cut
     /\ pc' = IF n = ng \/ it + 1 >= ITMAX THEN "grouped" ELSE "sweep"
  /\ UNCHANGED <<pw, ng, cut0, delta, grp, outcome, ty, lim, m, lastTot, flag, k>>

\* after the loop: error or return the last pass
EndGroup ==
  /\ pc = "grouped"
  /\ LET n == Len(sizes)
         err == IF Rule = "stuck" THEN it >= ITMAX /\ n # ng - 1 ELSE n # ng IN
     IF err THEN /\ outcome' = "error" /\ pc' = "done" /\ UNCHANGED grp
     ELSE /\ grp' = Assign(sizes)
          /\ IF DMAX = 0 THEN outcome' = "ok" /\ pc' = "done"
             ELSE outcome' = "run" /\ pc' = "dist"
  /\ UNCHANGED <<pw, ng, cut, cut0, delta, it, sizes, ty, lim, m, lastTot, flag, k>>

\* ---- distribute: one pass of the while loop --------------------------------
HasLimit == \A t \in TYPES : lim[t] > 0
GroupLimit(g) ==
  IF Rule = "firsttype" THEN lim[ty[Min(Members(g))]]
  ELSE Min({lim[ty[i]] : i \in Members(g)})
Redistribute ==
  /\ pc = "dist" /\ k < DMAX
  /\ \E f \in [0..(ng - 2) -> FACT] :
       LET raw == [i \in Ids |-> IF grp[i] = Last THEN 0
                                 ELSE (m[i] * f[grp[i]][1]) \div f[grp[i]][2]]
           over(g) == HasLimit /\ \E i \in Members(g) : raw[i] > lim[ty[i]]
           new == [i \in Ids |-> IF grp[i] = Last THEN 0
                                 ELSE IF over(grp[i]) THEN GroupLimit(grp[i]) ELSE raw[i]]
       IN /\ m' = new
          /\ flag' = [g \in 0..(NA - 1) |-> IF g < Last /\ over(g) THEN 1 ELSE flag[g]]
          /\ lastTot' = MT - SumF(new, Ids \ Members(Last))
  /\ k' = k + 1
  /\ UNCHANGED <<pw, ng, cut, cut0, delta, it, sizes, grp, pc, outcome, ty, lim>>

\* per-member flow of the last group is lastTot / members: compare by
\* cross-multiplication
NLast == Cardinality(Members(Last))
LastOver == HasLimit /\ \E i \in Members(Last) : lastTot > lim[ty[i]] * NLast
DistinctFlows ==
  /\ \A i, j \in Ids \ Members(Last) : grp[i] # grp[j] => m[i] # m[j]
  /\ \A i \in Ids \ Members(Last) : m[i] * NLast # lastTot
EndDist ==
  /\ pc = "dist" /\ k >= 1
  /\ LET nflag == SumF(flag, 0..(NA - 1))
         err == \/ nflag > 1
                \/ Rule \notin {"nolast"} /\ LastOver
                \/ ~DistinctFlows
     IN outcome' = IF err THEN "error" ELSE "ok"
  /\ pc' = "done"
  /\ UNCHANGED <<pw, ng, cut, cut0, delta, it, sizes, grp, ty, lim, m, lastTot, flag, k>>

Next == Pass \/ EndGroup \/ Redistribute \/ EndDist
Spec == Init /\ [][Next]_vars /\ WF_vars(Pass) /\ WF_vars(EndGroup)

\* ---- properties ------------------------------------------------------------
Returned == outcome = "ok" \/ pc = "dist"
\* every assembly in exactly one of exactly NG non-empty groups
Partition == Returned =>
  /\ \A i \in Ids : grp[i] \in 0..(ng - 1)
  /\ \A g \in 0..(ng - 1) : Members(g) # {}
\* ordered by the grouping parameter
Ordered == Returned => \A i, j \in Ids : grp[i] < grp[j] => pw[i] >= pw[j]
\* what is returned is the last pass
AsSwept == Returned => /\ Len(sizes) = ng
                       /\ \A g \in 0..(ng - 1) : Cardinality(Members(g)) = sizes[g + 1]
\* flows
SameFlowInGroup == pc = "dist" \/ (pc = "done" /\ DMAX > 0 /\ outcome = "ok") =>
  \A i, j \in Ids : grp[i] = grp[j] /\ grp[i] # Last => m[i] = m[j]
SumIsTotal == (pc = "dist" /\ k >= 1) \/ (pc = "done" /\ DMAX > 0 /\ outcome = "ok") =>
  SumF(m, Ids \ Members(Last)) + lastTot = MT
LimitNeverExceeded == pc = "done" /\ DMAX > 0 /\ outcome = "ok" /\ HasLimit =>
  /\ \A i \in Ids \ Members(Last) : m[i] <= lim[ty[i]]
  /\ \A i \in Members(Last) : lastTot <= lim[ty[i]] * NLast
\* the loop ends
GroupingEnds == <>(pc # "sweep" /\ pc # "grouped")
TypeOK == /\ pc \in {"sweep", "grouped", "dist", "done"}
          /\ outcome \in {"run", "ok", "error"}
          /\ it \in 0..ITMAX /\ k \in 0..DMAX
=============================================================================

----------------------------- MODULE Trace_Guard -----------------------------
(* Outcomes of the real reader / set-up / sweep on generated inputs, each    *)
(* with one perturbation.  The facts of the input as written are judged by   *)
(* Reasons() of InputGuard.tla; the observed outcome must agree with the     *)
(* guard pipeline: an invalid input is rejected, with a message, before any  *)
(* temperature is computed; nothing ends in an exception or a hang.          *)
EXTENDS MC_InputGuard, Json, IOUtils
Traces == ndJsonDeserialize(IOEnv.TRACE_FILE)
VARIABLES tid, l, verdict, firstbad, done
tvars == <<tid, l, verdict, firstbad, done>>
T == Traces[tid]
Ev == T.ev[l]
Init == /\ tid \in 1..Len(Traces) /\ l = 1 /\ verdict = {} /\ firstbad = 0 /\ done = FALSE
        /\ fault = "none" /\ stage = "schema" /\ outcome = "run" /\ computed = FALSE
Note(cl) == /\ verdict' = verdict \cup cl
            /\ firstbad' = IF cl # {} /\ firstbad = 0 THEN l ELSE firstbad
            /\ l' = l + 1 /\ UNCHANGED <<tid, done>> /\ UNCHANGED gvars
Live(e) == ~done /\ l <= Len(T.ev) /\ Ev.e = e
Cl(ok, name) == IF ok THEN {} ELSE {name}
TrInput ==
  /\ Live("Input")
  /\ LET why == Reasons(Ev.f) IN
     Note(Cl(why = {} \/ Ev.out = "rejected", "InvalidInputRejected")
          \cup Cl(Ev.out # "rejected" \/ Ev.computed = 0, "RejectedBeforeAnyTemperature")
          \cup Cl(Ev.out # "rejected" \/ Ev.msg = 1, "RejectionCarriesMessage")
          \cup Cl(Ev.out \notin {"crash", "hang"}, "NoUnhandledExceptionOrHang")
          \* the harness says which classes it meant to violate: the facts
          \* must show them (guards the fact extraction, not the code)
          \cup Cl(\A i \in 1..Len(Ev.meant) : Ev.meant[i] \in why, "FactsShowTheFault"))
Report == /\ ~done /\ l > Len(T.ev)
          /\ PrintT(<<"VERDICT", tid, IF verdict = {} THEN "accept" ELSE "reject",
                      IF firstbad # 0 THEN firstbad ELSE l - 1, verdict>>)
          /\ done' = TRUE /\ UNCHANGED <<tid, l, verdict, firstbad>> /\ UNCHANGED gvars
Next == TrInput \/ Report
Spec == Init /\ [][Next]_<<tvars, gvars>>
=============================================================================

------------------------------ MODULE Trace_Pin ------------------------------
EXTENDS PinRadial, FiniteSets, Json, IOUtils, TLC
Traces == ndJsonDeserialize(IOEnv.TRACE_FILE)
VARIABLES tid, l, verdict, firstbad, done, prev
vars == <<tid, l, verdict, firstbad, done, prev>>
T == Traces[tid]
Ev == T.ev[l]
Init == tid \in 1..Len(Traces) /\ l = 1 /\ verdict = {} /\ firstbad = 0 /\ done = FALSE
        /\ prev = <<>>
Note(cl) == /\ verdict' = verdict \cup cl
            /\ firstbad' = IF cl # {} /\ firstbad = 0 THEN l ELSE firstbad
            /\ l' = l + 1 /\ UNCHANGED <<tid, done>>
Live(e) == ~done /\ l <= Len(T.ev) /\ Ev.e = e
\* Pin events of one trace share the coolant temperature and come in
\* increasing power: each is also compared with its predecessor
TrPin == /\ Live("Pin")
         /\ prev' = <<Ev>>
         /\ Note(Clauses(Ev) \cup
                 (IF prev = <<>> \/ T.cfg.mono = 0 \/ Monotone(prev[1], Ev) THEN {}
                  ELSE {"TemperaturesIncreaseWithPower"}))
TrPinCool == Live("PinCool") /\ UNCHANGED prev /\
             Note(IF PinCoolant(Ev) THEN {} ELSE {"PinCoolantIsWeightedMeanOfAdjacentSubchannels"})
\* the iteration limit may stop the calculation with an error: allowed
TrStopped == Live("Stopped") /\ UNCHANGED prev /\ Note({})
TrCrash == Live("Crash") /\ UNCHANGED prev /\ Note({"NoUnhandledException"})
Report == /\ ~done /\ l > Len(T.ev)
          /\ PrintT(<<"VERDICT", tid, IF verdict = {} THEN "accept" ELSE "reject",
                      IF firstbad # 0 THEN firstbad ELSE l - 1, verdict>>)
          /\ done' = TRUE /\ UNCHANGED <<tid, l, verdict, firstbad, prev>>
\* at the end of an axial step the pin temperatures an assembly holds are
\* still the ones computed for it in that step (whatever the other
\* assemblies did afterwards)
TrPinKeep == Live("PinKeep") /\ UNCHANGED prev /\
             Note(IF Ev.same = 1 THEN {} ELSE {"PinTemperaturesStayWithTheirAssembly"})
Next == TrPin \/ TrPinCool \/ TrPinKeep \/ TrStopped \/ TrCrash \/ Report
Spec == Init /\ [][Next]_vars
=============================================================================

------------------------------ MODULE DumpSched ------------------------------
(***************************************************************************)
(* Scheduling of the temperature dumps during a sweep                       *)
(* (Reactor._determine_whether_to_dump_data).  Beyond the listed properties:*)
(* part of the growth of the specification (DESIGN.md 11.9).                *)
(*                                                                          *)
(* The mesh is a sequence of planes (integer ticks), some of which are      *)
(* axial boundaries (power-cell, region and requested planes; the outlet is *)
(* always one).  After each step the accumulated length since the last      *)
(* interval-triggered dump grows by the step; a dump is made when no        *)
(* interval is set, when the accumulated length reaches the interval (the   *)
(* accumulator restarts), or when the plane is an axial boundary (the       *)
(* accumulator keeps running).                                              *)
(***************************************************************************)
EXTENDS Integers, Sequences, FiniteSets, TLC
CONSTANTS LEN,        \* core length in ticks
          MAXDZ,      \* largest step
          Intervals,  \* candidate intervals (0 = none: dump every step)
          Rule        \* "code" | "resets-on-boundary" | "strict" (> instead of >=)
VARIABLES pos, acc, dumped, bnds, intv, lastdz
vars == <<pos, acc, dumped, bnds, intv, lastdz>>
Init == /\ pos = 0 /\ acc = 0 /\ dumped = <<>> /\ lastdz = 0
        /\ bnds \in {b \in SUBSET (1..LEN) : LEN \in b}
        /\ intv \in Intervals
\* the mesh lands on every boundary (AxialMesh.tla, C05): a step never
\* jumps over one
NextBnd == CHOOSE b \in bnds : b > pos /\ \A c \in bnds : c > pos => b <= c
Reach(a) == IF Rule = "strict" THEN a > intv ELSE a >= intv
Step == /\ pos < LEN
        /\ \E dz \in 1..MAXDZ :
             /\ pos + dz <= NextBnd
             /\ pos' = pos + dz /\ lastdz' = dz
             /\ LET a == acc + dz  p == pos + dz IN
                IF intv = 0 THEN dumped' = Append(dumped, p) /\ acc' = a
                ELSE IF Reach(a) THEN dumped' = Append(dumped, p) /\ acc' = 0
                ELSE IF p \in bnds
                     THEN /\ dumped' = Append(dumped, p)
                          /\ acc' = IF Rule = "resets-on-boundary" THEN 0 ELSE a
                     ELSE dumped' = dumped /\ acc' = a
        /\ UNCHANGED <<bnds, intv>>
Spec == Init /\ [][Step]_vars /\ WF_vars(Step)
Dumped == {dumped[i] : i \in 1..Len(dumped)}
\* every boundary plane passed so far has a row
BoundaryPlanesDumped == \A b \in bnds : b <= pos => b \in Dumped
Increasing == \A i \in 1..(Len(dumped) - 1) : dumped[i] < dumped[i + 1]
\* with an interval, two consecutive rows are never further apart than the
\* interval plus one step (the overshoot of the step that reaches it)
SpacingBound == intv > 0 =>
  /\ \A i \in 1..(Len(dumped) - 1) : dumped[i + 1] - dumped[i] <= intv + MAXDZ - 1
  /\ (dumped # <<>> => dumped[1] <= intv + MAXDZ - 1)
  /\ pos - (IF dumped = <<>> THEN 0 ELSE dumped[Len(dumped)]) <= intv + MAXDZ - 1
\* no row is made without a reason: not denser than needed
NoSpuriousRows == intv > 0 => acc < intv + MAXDZ
OutletDumped == <>(pos = LEN /\ LEN \in Dumped)
=============================================================================

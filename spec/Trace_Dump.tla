------------------------------ MODULE Trace_Dump ------------------------------
(* Dump decisions of real sweeps (one Step event per axial step, logged at    *)
(* Reactor._determine_whether_to_dump_data) and the rows found in the dump    *)
(* files, against the rule of DumpSched.tla.  Ticks of 1e-7 m; the           *)
(* accumulator is tracked as an interval [lo, hi] because a decision within   *)
(* one tick of the dump interval may go either way.                           *)
EXTENDS Integers, Sequences, FiniteSets, Json, IOUtils, TLC
Traces == ndJsonDeserialize(IOEnv.TRACE_FILE)
VARIABLES tid, l, verdict, firstbad, done, lo, hi, rows, pos
vars == <<tid, l, verdict, firstbad, done, lo, hi, rows, pos>>
T == Traces[tid]
Ev == T.ev[l]
Bnds == {T.bnds[i] : i \in 1..Len(T.bnds)}
Init == tid \in 1..Len(Traces) /\ l = 1 /\ verdict = {} /\ firstbad = 0 /\ done = FALSE
        /\ lo = 0 /\ hi = 0 /\ rows = {} /\ pos = 0
Note(cl) == /\ verdict' = verdict \cup cl
            /\ firstbad' = IF cl # {} /\ firstbad = 0 THEN l ELSE firstbad
            /\ l' = l + 1 /\ UNCHANGED <<tid, done>>
Live(e) == ~done /\ l <= Len(T.ev) /\ Ev.e = e
Cl(ok, name) == IF ok THEN {} ELSE {name}
InB(z) == \E b \in Bnds : b - z <= 1 /\ z - b <= 1
TrStep ==
  /\ Live("Step")
  /\ LET a == lo + Ev.dz  b == hi + Ev.dz  I == T.intv
         must == I = 0 \/ a >= I + 2 \/ InB(Ev.z)
         may == must \/ b >= I - 2
     IN /\ pos' = Ev.z
        /\ rows' = IF Ev.dump = 1 THEN rows \cup {Ev.z} ELSE rows
        /\ IF Ev.dump = 1
           THEN IF I = 0 THEN lo' = a /\ hi' = b
                ELSE IF a >= I + 2 THEN lo' = 0 /\ hi' = 0
                ELSE IF b >= I - 2 THEN lo' = 0 /\ hi' = b     \* reset or not
                ELSE lo' = a /\ hi' = b                        \* boundary only
           ELSE lo' = a /\ hi' = b
        /\ Note(Cl(Ev.dump = 0 \/ may, "NoRowWithoutReason")
                \cup Cl(Ev.dump = 1 \/ ~must, "RowWhenIntervalReachedOrBoundary")
                \cup Cl(Ev.z > pos, "PlanesIncrease"))
\* rows found in a dump file (ticks of the distinct z values, per-assembly
\* completeness checked by the harness flag)
TrRows ==
  /\ Live("Rows") /\ UNCHANGED <<lo, hi, rows, pos>>
  /\ LET got == {Ev.zs[i] : i \in 1..Len(Ev.zs)} IN
     Note(Cl(\A z \in rows : \E g \in got : g - z <= 1 /\ z - g <= 1, "EveryDumpStepHasARow")
          \cup Cl(\A g \in got : \E z \in rows : g - z <= 1 /\ z - g <= 1, "NoRowOutsideDumpSteps")
          \cup Cl(Ev.complete = 1, "OneRowPerAssemblyAndPlane")
          \cup Cl(\A b \in Bnds : b = 0 \/ \E g \in got : g - b <= 1 /\ b - g <= 1, "BoundaryPlanesDumped"))
TrCrash == Live("Crash") /\ UNCHANGED <<lo, hi, rows, pos>> /\ Note({"SweepRuns"})
Report == /\ ~done /\ l > Len(T.ev)
          /\ PrintT(<<"VERDICT", tid, IF verdict = {} THEN "accept" ELSE "reject",
                      IF firstbad # 0 THEN firstbad ELSE l - 1, verdict>>)
          /\ done' = TRUE /\ UNCHANGED <<tid, l, verdict, firstbad, lo, hi, rows, pos>>
Next == TrStep \/ TrRows \/ TrCrash \/ Report
Spec == Init /\ [][Next]_vars
=============================================================================

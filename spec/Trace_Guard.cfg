SPECIFICATION Spec
CONSTANTS
  Faults <- FaultsDef
  CaughtAt <- Reader
CHECK_DEADLOCK FALSE

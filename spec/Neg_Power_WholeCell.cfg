SPECIFICATION Spec
CONSTANTS L = 6
          Scheme = "whole_cell"
          Require = "always"
INVARIANT Thm
CHECK_DEADLOCK FALSE

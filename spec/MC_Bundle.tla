----------------------------- MODULE MC_Bundle -----------------------------
(* Exhaustive check of the theorems of Bundle.tla for N = 2..MaxN rings   *)
(* and 1..MaxND ducts: one state per configuration.                        *)
EXTENDS Bundle, TLC
CONSTANTS MinN, MaxN, MaxND
VARIABLES n, nd
vars == <<n, nd>>
Init == n = MinN /\ nd = 1
NextDuct == nd < MaxND /\ nd' = nd + 1 /\ n' = n
NextRing == nd = MaxND /\ n < MaxN /\ n' = n + 1 /\ nd' = 1
Next == NextDuct \/ NextRing
Spec == Init /\ [][Next]_vars
ThmCounts == CountsOK(n, nd)
ThmAdjSymmetric == AdjSymmetric(n, nd)
ThmDegree == DegreeOK(n, nd)
ThmPinFractions == nd > 1 \/ PinFractionsOK(n)
ThmPinDegree == nd > 1 \/ (PinDegreeOK(n) /\ PinCellsComplete(n))
ThmEquivariant == Equivariant(n, nd)
ThmPinEquivariant == nd > 1 \/ PinEquivariant(n)
ThmSwirl == nd > 1 \/ SwirlEquivariant(n)
ThmSignatures == nd > 1 \/ SignaturesOK(n)
ThmLattice == n > 2 \/ (RotOrder6 /\ RotIsometry /\ DirsClockwise /\ RingCount)
=============================================================================

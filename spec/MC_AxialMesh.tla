---------------------------- MODULE MC_AxialMesh ----------------------------
(* Exhaustive small-scope exploration of the mesh construction: core length *)
(* Lticks micrometre-ticks, every boundary subset, every limit / request.   *)
(* Variant "reject" (specified: non-positive step is an error) terminates;  *)
(* variant "no_reject" (a step that floors to zero is marched with) does    *)
(* not: Termination fails (Neg_AxialMesh_Hang.cfg).                         *)
EXTENDS AxialMesh, TLC
CONSTANTS Lticks, MaxLimit, Variant
Tick(n) == <<n, 0>>     \* n micrometres
SubPm(n) == <<0, n>>    \* sub-micrometre requirement (floors to zero)
Interior == SUBSET (1..(Lticks - 1))
Limits == {Tick(n) : n \in 1..MaxLimit} \cup {SubPm(500000)}
Users == {Zero} \cup {Tick(n) : n \in 1..MaxLimit}
Init == \E S \in Interior : \E lim \in Limits : \E usr \in Users :
          AInit({Zero, Tick(Lticks)} \cup {Tick(n) : n \in S}, lim, usr, Tick(MaxLimit - 2))
DoSelect == IF Variant = "reject" THEN Select(Chosen(limit, user, cap))
            ELSE /\ status = "select" /\ step' = Chosen(limit, user, cap)
                 /\ status' = "march" /\ UNCHANGED <<B, limit, user, cap, z, planes>>
DoAdvance == Advance(NextPlane(B, z, step))
Next == DoSelect \/ DoAdvance
Spec == Init /\ [][Next]_avars /\ WF_avars(Next)
Termination == <>(status \in {"done", "error"})
InvPast == NeverPastEnd
InvDone == Done
InvStep == StepWithinLimit
InvUser == UserHonoured
ErrorOnlyIfZero == status = "error" => Le(step, Zero)
=============================================================================

-------------------------------- MODULE Corr --------------------------------
(***************************************************************************)
(* C12: relations every evaluation of the bundle correlations must satisfy.*)
(* One observation o = one (friction, flow split, mixing) combination the   *)
(* input reader accepts, on one bundle, at one Reynolds number, with one    *)
(* spacer-grid option.  Quantities are logged as integers in units of 2^-27 *)
(* (ONE): split factors relative to 4, area shares relative to 1, pressure  *)
(* gradients relative to 4 x the largest of them.                           *)
(***************************************************************************)
EXTENDS Integers, Sequences, FiniteSets
ONE == 134217728
Close(x, y, tol) == x - y <= tol /\ y - x <= tol
Friction == {"NOV", "REH", "ENG", "CTD", "CTS", "UCTD"}
FlowSplit == {"NOV", "SE2", "MIT", "CTD", "UCTD"}
Mixing == {"MIT", "CTD", "UCTD", "KC-BARE"}
Regime == {"laminar", "transition", "turbulent"}
Grid == {"none", "loss_coeff", "REH", "CDD"}
Accepted(o) == o.ff \in Friction /\ o.fs \in FlowSplit /\ o.mix \in Mixing
               /\ o.regime \in Regime /\ o.grid \in Grid
CTFamily(n) == n \in {"CTD", "UCTD"}
\* clauses
Evaluable(o) == o.outcome = "ok"
SplitPositive(o) == \A i \in 1..3 : o.x[i] > 0
\* mass: flow-area-weighted mean of the split factors is one
\*   o.sx[i] = share_i * x_i  (share_i = n_i A_i / A_bundle), in units of ONE
MassConserved(o) == Close(o.sx[1] + o.sx[2] + o.sx[3], ONE, o.tol)
\* Cheng-Todreas family: equal pressure gradient (friction + grid) in the
\* three subchannel types; o.G[i] relative to the largest
GradientsEqual(o) ==
  ~CTFamily(o.fs) \/ o.hasG = 0
  \/ (Close(o.G[1], o.G[2], o.gtol) /\ Close(o.G[2], o.G[3], o.gtol))
\* ... and in laminar / turbulent flow it is the bundle friction gradient
BundleGradient(o) ==
  ~CTFamily(o.fs) \/ o.ff # o.fs \/ o.regime = "transition" \/ o.hasG = 0 \/ o.grid # "none"
  \/ Close(o.G[2], o.Gb, o.gtol)
FrictionOK(o) == o.fpos = 1
MixingOK(o) == o.mixok = 1
Clauses(o) ==
  (IF Accepted(o) THEN {} ELSE {"CombinationIsAcceptedByTheReader"})
  \cup (IF Evaluable(o) THEN {} ELSE {"AcceptedCombinationEvaluable"})
  \cup (IF ~Evaluable(o) \/ SplitPositive(o) THEN {} ELSE {"SplitFactorsPositive"})
  \cup (IF ~Evaluable(o) \/ MassConserved(o) THEN {} ELSE {"FlowSplitConservesMass"})
  \cup (IF ~Evaluable(o) \/ GradientsEqual(o) THEN {} ELSE {"SplitEqualisesPressureGradients"})
  \cup (IF ~Evaluable(o) \/ BundleGradient(o) THEN {} ELSE {"CommonGradientIsBundleFriction"})
  \cup (IF ~Evaluable(o) \/ FrictionOK(o) THEN {} ELSE {"FrictionFactorPositiveFinite"})
  \cup (IF ~Evaluable(o) \/ MixingOK(o) THEN {} ELSE {"MixingParametersNonNegativeFinite"})
=============================================================================

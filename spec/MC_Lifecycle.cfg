SPECIFICATION Spec
CONSTANTS
  MaxObj = 4
  MaxOps = 7
  SaveDisturbs = FALSE
  Emit = FALSE
INVARIANT TypeOK
INVARIANT SweptObjectsAgree
INVARIANT UnsweptObjectsAtInlet
INVARIANT FileIsAnObjectState
PROPERTY SavingLeavesTheObjectAlone
PROPERTY LoadedIsWhatWasSaved
PROPERTY ObjectsNeverGoBack
CHECK_DEADLOCK FALSE

------------------------------- MODULE CoreGap -------------------------------
(***************************************************************************)
(* Geometric definition of the inter-assembly gap mesh (C09).              *)
(*                                                                         *)
(* Assemblies sit on the hexagonal lattice of HexLattice.tla (axial         *)
(* coordinates).  The six sides of an assembly at p, in the order the      *)
(* solver walks them, face the neighbours p + CDir(s), s = 0..5, each      *)
(* turned 60 degrees from the previous one.                                *)
(*                                                                         *)
(* Gap cells are named by geometry only:                                   *)
(*   edge cell    <<0, p + q, i>>   on the side segment between the         *)
(*                adjacent lattice points p and q (p + q names the          *)
(*                segment; q need not be occupied); i = 0..n-1 counts from  *)
(*                the segment's canonical start vertex, n being the finer   *)
(*                of the two meshes that face the segment                   *)
(*   corner cell  <<1, v, 0>>       at the vertex v = a + b + c of three    *)
(*                mutually adjacent lattice points                          *)
(* A cell exists iff it touches at least one occupied position.             *)
(***************************************************************************)
EXTENDS HexLattice

CDir(s) == RotK(s, <<0, 1>>)
\* mesh of an assembly type along one hex side: number of edge cells
\* (0 for assemblies without a pin bundle); "finer" = more cells, ties by
\* smaller pitch class (the harness orders pitch classes)
CONSTANTS Occ,        \* set of occupied lattice points
          Scps,       \* [Occ -> Nat]  edge cells per side of each assembly
          Pitch       \* [Occ -> Nat]  pitch class (smaller = finer) for ties

IsOcc(p) == p \in Occ
\* which of two facing assemblies defines the mesh of their shared side
Finer(p, q) ==
  IF ~IsOcc(q) THEN p
  ELSE IF ~IsOcc(p) THEN q
  ELSE IF Scps[p] > Scps[q] THEN p
  ELSE IF Scps[q] > Scps[p] THEN q
  ELSE IF Scps[p] = 0 THEN p
  ELSE IF Pitch[p] < Pitch[q] THEN p ELSE q
SegCells(p, q) == Scps[Finer(p, q)]        \* p occupied or q occupied

\* vertices at the two ends of side s of p (walking order: start, end)
VStart(p, s) == Add(Add(p, Add(p, CDir(s))), Add(p, CDir(s + 5)))
VEnd(p, s) == Add(Add(p, Add(p, CDir(s))), Add(p, CDir(s + 1)))
SegKey(p, s) == Add(p, Add(p, CDir(s)))
\* canonical start of a segment: the lexicographically smaller end vertex
LexLt(a, b) == a[1] < b[1] \/ (a[1] = b[1] /\ a[2] < b[2])
\* the j-th cell (0-based) met when walking side s of p from VStart to VEnd
SideCell(p, s, j) ==
  LET n == SegCells(p, Add(p, CDir(s))) IN
  IF LexLt(VStart(p, s), VEnd(p, s)) THEN <<0, SegKey(p, s), j>>
  ELSE <<0, SegKey(p, s), n - 1 - j>>
CornerCell(p, s) == <<1, VEnd(p, s), 0>>    \* trailing corner of side s

\* the perimeter walk of an assembly: side 0 cells, corner, side 1 cells ...
RECURSIVE Walk(_, _)
Walk(p, s) ==
  IF s = 6 THEN <<>>
  ELSE LET n == SegCells(p, Add(p, CDir(s))) IN
       [j \in 1..n |-> SideCell(p, s, j - 1)] \o <<CornerCell(p, s)>> \o Walk(p, s + 1)
Perimeter(p) == Walk(p, 0)
CellsOf(p) == {Perimeter(p)[i] : i \in 1..Len(Perimeter(p))}
AllCells == UNION {CellsOf(p) : p \in Occ}

\* assemblies a cell borders
Borders(c) == {p \in Occ : c \in CellsOf(p)}

\* adjacency: consecutive cells of any perimeter walk (cyclically)
WalkPairs(p) == LET w == Perimeter(p) n == Len(w) IN
   {<<w[i], w[(i % n) + 1]>> : i \in 1..n}
AdjPairs == UNION {WalkPairs(p) : p \in Occ}
GapAdjIn(c, cells, pairs) == {d \in cells : <<c, d>> \in pairs \/ <<d, c>> \in pairs}
GapAdj(c) == GapAdjIn(c, AllCells, AdjPairs)
BordersIn(c, per) == {p \in Occ : c \in per[p]}

\* ---- theorems of the definition (MC_CoreGap) ----------------------------
AllTheorems ==
  LET per == [p \in Occ |-> CellsOf(p)]
      cells == UNION {per[p] : p \in Occ}
      pairs == AdjPairs
      adj == [c \in cells |-> GapAdjIn(c, cells, pairs)]
  IN
  \* every cell borders 1..3 assemblies (edge cells 1..2)
  /\ \A c \in cells : LET b == Cardinality(BordersIn(c, per)) IN
        b \in 1..3 /\ (c[1] = 0 => b \in 1..2)
  \* adjacency symmetric, irreflexive; edge cells have 2 neighbours, corners 2..3
  /\ \A c \in cells : /\ \A d \in adj[c] : c \in adj[d] /\ c # d
                       /\ Cardinality(adj[c]) \in 2..3
                       /\ (c[1] = 0 => Cardinality(adj[c]) = 2)
  \* the walk around an assembly meets every cell once and six corners
  /\ \A p \in Occ : LET w == Perimeter(p) IN
        /\ Cardinality(per[p]) = Len(w)
        /\ Cardinality({i \in 1..Len(w) : w[i][1] = 1}) = 6
  \* a shared side is seen with the same cells from both sides, reversed
  /\ \A p \in Occ : \A s \in 0..5 :
        LET q == Add(p, CDir(s)) IN
        IsOcc(q) =>
          LET n == SegCells(p, q) IN
          \A j \in 0..(n - 1) : SideCell(p, s, j) = SideCell(q, s + 3, n - 1 - j)
=============================================================================

----------------------------- MODULE Trace_Equi -----------------------------
(***************************************************************************)
(* Equivariance under the hexagonal symmetries (C07), on pairs of runs.    *)
(*   Perm / PinPerm : the permutation the harness used to move the power   *)
(*        map and to align the results, as pairs of geometric keys; it     *)
(*        must be the action of the group element g of HexLattice / Bundle *)
(*        (so the relation checked is the specification's, not an index    *)
(*        formula of the implementation)                                   *)
(*   Cmp : two aligned integer vectors (run 1 at cell c, run 2 at g.c)      *)
(*        that must be equal within tol                                     *)
(***************************************************************************)
EXTENDS Bundle, Json, IOUtils, TLC
Traces == ndJsonDeserialize(IOEnv.TRACE_FILE)
VARIABLES tid, l, verdict, firstbad, done
vars == <<tid, l, verdict, firstbad, done>>
T == Traces[tid]
Ev == T.ev[l]
Close(x, y, tol) == x - y <= tol /\ y - x <= tol
ToCell(x) == <<x[1], x[2], <<x[3], x[4]>>>>
ToPt(x) == <<x[1], x[2]>>
Init == tid \in 1..Len(Traces) /\ l = 1 /\ verdict = {} /\ firstbad = 0 /\ done = FALSE
Note(cl) == /\ verdict' = verdict \cup cl
            /\ firstbad' = IF cl # {} /\ firstbad = 0 THEN l ELSE firstbad
            /\ l' = l + 1 /\ UNCHANGED <<tid, done>>
Live(e) == ~done /\ l <= Len(T.ev) /\ Ev.e = e
G == <<T.cfg.g[1], T.cfg.g[2]>>
TrPerm == Live("Perm") /\
  Note(IF \A i \in 1..Len(Ev.pairs) :
            ToCell(Ev.pairs[i][2]) = ActCell(G, ToCell(Ev.pairs[i][1]))
       THEN {} ELSE {"PermutationIsTheGroupAction"})
TrPinPerm == Live("PinPerm") /\
  Note(IF \A i \in 1..Len(Ev.pairs) :
            ToPt(Ev.pairs[i][2]) = Act(G, ToPt(Ev.pairs[i][1]))
       THEN {} ELSE {"PermutationIsTheGroupAction"})
TrCmp == Live("Cmp") /\
  Note(IF Len(Ev.a) = Len(Ev.b) /\ \A i \in 1..Len(Ev.a) : Close(Ev.a[i], Ev.b[i], Ev.tol)
       THEN {} ELSE {Ev.what})
TrCrash == Live("Crash") /\ Note({"BothRunsComplete"})
Report == /\ ~done /\ l > Len(T.ev)
          /\ PrintT(<<"VERDICT", tid, IF verdict = {} THEN "accept" ELSE "reject",
                      IF firstbad # 0 THEN firstbad ELSE l - 1, verdict>>)
          /\ done' = TRUE /\ UNCHANGED <<tid, l, verdict, firstbad>>
Next == TrPerm \/ TrPinPerm \/ TrCmp \/ TrCrash \/ Report
Spec == Init /\ [][Next]_vars
=============================================================================

----------------------------- MODULE Trace_Duct -----------------------------
(* Validation of every recorded duct-wall solve (one Slab event per call of *)
(* the solver's duct routine and per duct; cells in o.cells).               *)
EXTENDS Duct, FiniteSets, Json, IOUtils, TLC
Traces == ndJsonDeserialize(IOEnv.TRACE_FILE)
VARIABLES tid, l, verdict, firstbad, done
vars == <<tid, l, verdict, firstbad, done>>
T == Traces[tid]
Ev == T.ev[l]
Init == tid \in 1..Len(Traces) /\ l = 1 /\ verdict = {} /\ firstbad = 0 /\ done = FALSE
SlabClauses(o) == UNION {CellClauses(o.cells[i], o.adia = 1, o.tol, o.tolT) : i \in 1..Len(o.cells)}
TrSlab == /\ ~done /\ l <= Len(T.ev) /\ Ev.e = "Slab"
          /\ LET cl == SlabClauses(Ev) IN
             /\ verdict' = verdict \cup cl
             /\ firstbad' = IF cl # {} /\ firstbad = 0 THEN l ELSE firstbad
          /\ l' = l + 1 /\ UNCHANGED <<tid, done>>
TrCrash == /\ ~done /\ l <= Len(T.ev) /\ Ev.e = "Crash"
           /\ verdict' = verdict \cup {"SweepRuns"}
           /\ firstbad' = IF firstbad = 0 THEN l ELSE firstbad
           /\ l' = l + 1 /\ UNCHANGED <<tid, done>>
Report == /\ ~done /\ l > Len(T.ev)
          /\ PrintT(<<"VERDICT", tid, IF verdict = {} THEN "accept" ELSE "reject",
                      IF firstbad # 0 THEN firstbad ELSE l - 1, verdict>>)
          /\ done' = TRUE /\ UNCHANGED <<tid, l, verdict, firstbad>>
Next == TrSlab \/ TrCrash \/ Report
Spec == Init /\ [][Next]_vars
=============================================================================

SPECIFICATION Spec
CONSTANTS TolP = 6
          RP = 64
          Interval = "half_open"
CHECK_DEADLOCK FALSE

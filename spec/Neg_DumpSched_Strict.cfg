SPECIFICATION Spec
CONSTANTS
  LEN = 9
  MAXDZ = 3
  Intervals = {0, 2, 4, 5}
  Rule = "strict"
INVARIANT BoundaryPlanesDumped
INVARIANT Increasing
INVARIANT SpacingBound
INVARIANT NoSpuriousRows
PROPERTY OutletDumped
CHECK_DEADLOCK FALSE

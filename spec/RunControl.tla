----------------------------- MODULE RunControl -----------------------------
(***************************************************************************)
(* Execution of the time points of one input (C16), shaped like            *)
(* dassh/__main__.py:run_dassh / _run_dassh.                                *)
(*                                                                          *)
(* The parsed input is a set of cells (Keys -> Nat, 0 = as parsed).  One    *)
(* Reactor is built per time point from the input as the building process   *)
(* sees it: the parent's own object in the serial loop, a copy taken at     *)
(* submission by a pool worker.  A model is what it was built from; a       *)
(* result is a function of the model only (the sweep is deterministic,      *)
(* C06/C16 traces bind that); outputs go to the directory of the time point.*)
(*                                                                          *)
(* Variant:                                                                 *)
(*   "pure"      set-up only reads the input (the tree after the fixes)     *)
(*   "writes"    set-up stores defaults/objects in the input (pre-fix)      *)
(*   "aliases"   set-up appends time-point data to a list owned by the      *)
(*               input (seeded change C16-1)                                 *)
(*   "shareddir" every time point writes to the base directory              *)
(***************************************************************************)
EXTENDS Integers, FiniteSets, Sequences, TLC
CONSTANTS NTP,       \* number of time points
          NW,        \* pool workers (0 = serial loop)
          Keys,      \* input cells
          MAXREB,    \* extra constructions from the same input object
          Variant
VARIABLES inp, wcopy, phase, model, out, nexti, rebuilt
vars == <<inp, wcopy, phase, model, out, nexti, rebuilt>>
TP == 1..NTP
Parsed == [k \in Keys |-> 0]
NoCopy == [k \in Keys |-> -1]
Dir(tp) == IF Variant = "shareddir" \/ NTP = 1 THEN 0 ELSE tp
K0 == CHOOSE k \in Keys : TRUE

Init == /\ inp = Parsed /\ wcopy = [t \in TP |-> NoCopy]
        /\ phase = [t \in TP |-> "todo"] /\ model = [t \in TP |-> <<>>]
        /\ out = [d \in 0..NTP |-> {}] /\ nexti = 1 /\ rebuilt = 0

\* what set-up does to the dictionary it is handed
After(view, tp) ==
  CASE Variant = "writes" -> [view EXCEPT ![K0] = 1]
    [] Variant = "aliases" -> [view EXCEPT ![K0] = @ + tp]
    [] OTHER -> view
Running == {t \in TP : phase[t] \in {"built", "swept"}}

\* serial loop: time point nexti is built, swept and written before the next
SerialBuild(tp) ==
  /\ NW = 0 /\ tp = nexti /\ phase[tp] = "todo"
  /\ model' = [model EXCEPT ![tp] = <<inp, tp>>]
  /\ inp' = After(inp, tp)
  /\ phase' = [phase EXCEPT ![tp] = "built"]
  /\ UNCHANGED <<wcopy, out, nexti, rebuilt>>
\* pool: the loop submits every time point (arguments are copied), workers
\* take them in any order, at most NW at a time
Submit(tp) ==
  /\ NW > 0 /\ tp = nexti /\ phase[tp] = "todo"
  /\ wcopy' = [wcopy EXCEPT ![tp] = inp]
  /\ phase' = [phase EXCEPT ![tp] = "submitted"]
  /\ nexti' = nexti + 1
  /\ UNCHANGED <<inp, model, out, rebuilt>>
PoolBuild(tp) ==
  /\ NW > 0 /\ phase[tp] = "submitted" /\ Cardinality(Running) < NW
  /\ model' = [model EXCEPT ![tp] = <<wcopy[tp], tp>>]
  /\ wcopy' = [wcopy EXCEPT ![tp] = After(wcopy[tp], tp)]
  /\ phase' = [phase EXCEPT ![tp] = "built"]
  /\ UNCHANGED <<inp, out, nexti, rebuilt>>
Sweep(tp) == /\ phase[tp] = "built" /\ phase' = [phase EXCEPT ![tp] = "swept"]
             /\ UNCHANGED <<inp, wcopy, model, out, nexti, rebuilt>>
Write(tp) == /\ phase[tp] = "swept"
             /\ out' = [out EXCEPT ![Dir(tp)] = @ \cup {tp}]
             /\ phase' = [phase EXCEPT ![tp] = "written"]
             /\ nexti' = IF NW = 0 THEN nexti + 1 ELSE nexti
             /\ UNCHANGED <<inp, wcopy, model, rebuilt>>
\* a later construction from the same input object (orificing iteration,
\* plotting, a second run): must give the model of the first one
Rebuild(tp) ==
  /\ NW = 0 /\ \A t \in TP : phase[t] = "written" /\ rebuilt < MAXREB
  /\ model' = [model EXCEPT ![tp] = <<inp, tp>>]
  /\ inp' = After(inp, tp)
  /\ rebuilt' = rebuilt + 1
  /\ UNCHANGED <<wcopy, phase, out, nexti>>
Next == \E tp \in TP : SerialBuild(tp) \/ Submit(tp) \/ PoolBuild(tp) \/ Sweep(tp)
                       \/ Write(tp) \/ Rebuild(tp)
Spec == Init /\ [][Next]_vars /\ WF_vars(Next)

InputUnchanged == inp = Parsed
\* every model is built from the input as parsed: so the model of a time
\* point does not depend on serial/pool, worker count, order or repetition
ScheduleIndependent == \A t \in TP : model[t] # <<>> => model[t] = <<Parsed, t>>
OwnDirectory == \A d \in 0..NTP : Cardinality(out[d]) <= 1
AllWritten == <>(\A t \in TP : phase[t] = "written")
=============================================================================

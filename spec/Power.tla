------------------------------- MODULE Power -------------------------------
(***************************************************************************)
(* Delivery of an assembly's axial power profile over one power cell.      *)
(*                                                                         *)
(* The cell is [0, L] in integer ticks; with u = 2x - L the linear power   *)
(* shape is  p(u) = a + b u + c (3 u^2 - L^2)   (cell average = a; the b    *)
(* and c terms integrate to zero over the cell).  Axial planes cut the     *)
(* cell into steps [s, t]; at the step midpoint u = s + t - L is an        *)
(* integer, so everything below is exact integer arithmetic.               *)
(*                                                                         *)
(* The pin bundle occupies [blo, bhi] (planes).  The solver gives steps    *)
(* outside the bundle the CELL-AVERAGE power a, and steps inside it        *)
(* r * p(midpoint), r being a per-cell renormalisation factor.             *)
(*   scheme "whole_cell" (what presweep_setup does):                       *)
(*        r = a L / SUM_{all steps of the cell} p(mid) dz                  *)
(*   scheme "split" (exact by construction): outside gets the integral of  *)
(*        p over the outside part, inside is renormalised to the integral  *)
(*        over the inside part.                                            *)
(* C03: delivered = integral of the cell, for any planes and any bounds.   *)
(***************************************************************************)
EXTENDS Integers, Sequences, FiniteSets
CONSTANTS L, Scheme
VARIABLES planes, a, b, c, blo, bhi
pvars == <<planes, a, b, c, blo, bhi>>

PMid(s, t) == LET u == s + t - L IN a + b * u + c * (3 * u * u - L * L)
\* 4 * integral of p over [s, t]
I4(s, t) == LET u1 == 2 * s - L  u2 == 2 * t - L IN
   2 * a * (u2 - u1) + b * (u2 * u2 - u1 * u1)
   + 2 * c * ((u2 * u2 * u2 - u1 * u1 * u1) - L * L * (u2 - u1))
Inside(s, t) == blo <= s /\ t <= bhi
RECURSIVE Sum(_, _, _)
\* kind 1: midpoint sum over inside steps; 2: over outside steps;
\* 3: length of outside steps; 4: 4*integral over outside steps
Sum(s, i, kind) ==
  IF i >= Len(s) THEN 0
  ELSE (IF kind = 1 THEN (IF Inside(s[i], s[i+1]) THEN PMid(s[i], s[i+1]) * (s[i+1] - s[i]) ELSE 0)
        ELSE IF kind = 2 THEN (IF ~Inside(s[i], s[i+1]) THEN PMid(s[i], s[i+1]) * (s[i+1] - s[i]) ELSE 0)
        ELSE IF kind = 3 THEN (IF ~Inside(s[i], s[i+1]) THEN s[i+1] - s[i] ELSE 0)
        ELSE (IF ~Inside(s[i], s[i+1]) THEN I4(s[i], s[i+1]) ELSE 0))
       + Sum(s, i + 1, kind)
SIn == Sum(planes, 1, 1)
SOut == Sum(planes, 1, 2)
LOut == Sum(planes, 1, 3)
IOut4 == Sum(planes, 1, 4)
\* whole-cell scheme: delivered = a LOut + (a L / (SIn+SOut)) SIn ; exact
\* iff  a LOut (SIn+SOut) + a L SIn = a L (SIn+SOut)
ExactWhole == (SIn + SOut) # 0 =>
   a * LOut * (SIn + SOut) + a * L * SIn = a * L * (SIn + SOut)
\* split scheme: delivered = IOut + IIn = I  (4*I = 4 a L)
ExactSplit == IOut4 + (I4(0, L) - IOut4) = 4 * a * L
Exact == IF Scheme = "whole_cell" THEN ExactWhole ELSE ExactSplit
Aligned == LOut = 0 \/ LOut = L
Flat == b = 0 /\ c = 0
\* the shape is positive on the cell (checked at plane points and midpoints)
Positive == \A i \in 1..(Len(planes) - 1) : PMid(planes[i], planes[i+1]) > 0
=============================================================================
